"""C14 - ignorable whitespace is ignored exactly when tag-whitespace normalisation is on."""
import json
import os
import shutil
import tempfile

from lxml import etree

import core
import gen
import real
import xt
from xt import PNode

THEOREMS = ["XmlDiffModel.C14_strip_reindent", "XmlDiffModel.C14_flag_table", "XmlDiffModel.C14_nostrip_differs",
            "XmlDiffModel.C14_stripped_reindent_empty_script", "XmlDiffModel.C14_unstripped_reindent_nonempty_script",
            "XmlDiffModel.C14_xml_formatter_markup_free"]
PARTIAL = {
    "C14 (xml formatter, real parser)": "proved at model level: blank stripping is blind to re-indentation, the flag table, and the "
    "composition with C03 - the stripped parses of a document and of its re-indented version get the empty script in all three match "
    "modes (C14_stripped_reindent_empty_script; oracle hypotheses of C03), the unstripped ones a non-empty script whenever the root's "
    "indentation changed (C14_unstripped_reindent_nonempty_script). the model of the XML formatter (engine inside, no text tags) returns the left parse itself for the two stripped parses, without any markup (C14_xml_formatter_markup_free). NOT proved: that lxml's "
    "parser implements the blank-node model (both decided per run by the oracle over the formatter x flag table and the stripBlank "
    "correspondence)",
}
LEAN_MODULES = ["XmlDiffModel.Props.C14"]
SOURCES = ["main._diff", "main.diff_texts", "main.diff_files", "formatting.DiffFormatter", "formatting.XmlDiffFormatter", "formatting.XMLFormatter"]
RULE = (
    "Random element-only-or-text-only documents, serialised under two different indentation schemes (compact, 1/2/4 spaces, tab, "
    "CRLF newline) -> (a) Blank.stripBlank on the unstripped parse vs. XMLParser(remove_blank_text=True) and SepContent, "
    "(b) the 13-row table: formatter in {None, DiffFormatter, XmlDiffFormatter, XMLFormatter} x normalize in the four flag values, "
    "via diff_texts and diff_files, and through diff_command with and without --keep-whitespace: empty script iff the parser strips, markup-free xml output iff any flag is set, non-empty and "
    "round-tripping script with WS_NONE. Non-trivial = document with >= 2 levels of child-bearing elements and two different "
    "non-compact schemes; distinct by the two serialisations."
)
ASSUMPTIONS = ["libxml2's blank-node heuristic is modelled for the property's document class only (elements with either child nodes or text)"]

SCHEMES = ["", " ", "  ", "    ", "\t", "CRLF"]
DIFF_NS = "http://namespaces.shoobx.com/diff"


def sep_tree(r, max_nodes=12):
    n = r.randint(2, max_nodes)
    root = PNode("e", r.choice(gen.TAGS), gen.rand_attrs(r, 0.2), None, None)
    inner = [root]
    for _ in range(n - 1):
        p = r.choice(inner)
        c = PNode("e", r.choice(gen.TAGS), gen.rand_attrs(r, 0.2), None, None)
        p.kids.append(c)
        if r.random() < 0.5:
            inner.append(c)
    for x in root.iter():
        if not x.kids and r.random() < 0.7:
            x.text = r.choice(["x", "hello world", "a b", " lead", "1", "y z", " "])
    if r.random() < 0.35:
        # comments between the child elements (present in both serialisations, so they are matched, not inserted)
        holders = [x for x in root.iter() if x.kids]
        for _ in range(r.randint(1, 3)):
            h = r.choice(holders)
            h.kids.insert(r.randint(0, len(h.kids)), PNode("c", "", [], r.choice(gen.COMMENTS), None))
    return root.number(0)


def sep_ok(p):
    """Element-only-or-text-only, no comments (the property's document class)."""
    for n in p.iter():
        if n.kind != "e":
            return False
        if n.kids and (n.text or "").strip():
            return False
        if (n.tail or "").strip():
            return False
        if n.kids and n.text is not None and n.text != "" and n.text.strip() == "" and False:
            return False
    return True


def serialize_indented(p, scheme):
    nl = "\r\n" if scheme == "CRLF" else "\n"
    unit = "  " if scheme == "CRLF" else scheme

    def attrs(n):
        return "".join(' %s="%s"' % (k if not k.startswith("{") else "xml:id", v.replace("&", "&amp;").replace('"', "&quot;").replace("<", "&lt;")) for k, v in n.attrs)

    def go(n, d):
        if n.kind == "c":
            return "<!--%s-->" % n.text
        if not n.kids:
            t = (n.text or "").replace("&", "&amp;").replace("<", "&lt;")
            return "<%s%s>%s</%s>" % (n.tag, attrs(n), t, n.tag) if t else "<%s%s/>" % (n.tag, attrs(n))
        if scheme == "":
            return "<%s%s>%s</%s>" % (n.tag, attrs(n), "".join(go(c, d + 1) for c in n.kids), n.tag)
        inner = "".join(nl + unit * (d + 1) + go(c, d + 1) for c in n.kids)
        return "<%s%s>%s%s</%s>" % (n.tag, attrs(n), inner, nl + unit * d, n.tag)

    return go(p, 0)


def plain_attrs(p):
    for n in p.iter():
        n.attrs = [(k, v) for k, v in n.attrs if not k.startswith("{") and v.strip() == v and v]
    return p


def _chunk(seed, lo, hi, extra):
    from xmldiff import main, formatting

    tier, mode = extra
    st = core.Stats()
    d = tempfile.mkdtemp(prefix="verif_c14_")
    reqs, pend = [], []
    try:
        for idx in range(lo, hi):
            r = core.rng_for(seed, "C14", idx)
            T = plain_attrs(sep_tree(r, 12 if tier == "quick" else 25))
            s1, s2 = r.sample(SCHEMES, 2)
            a, b = serialize_indented(T, s1), serialize_indented(T, s2)
            st.evaluations += 1
            desc = {"original": a, "reindented": b, "schemes": [s1, s2]}
            # (a) model of the blank-stripping parser
            st.units["U10blank"] = st.units.get("U10blank", 0) + 1
            for x in (a, b):
                raw = xt.from_lxml(etree.fromstring(x, etree.XMLParser(remove_blank_text=False)))
                stripped = xt.from_lxml(etree.fromstring(x, etree.XMLParser(remove_blank_text=True)))
                reqs.append("blank\t" + xt.enc_tree(raw))
                pend.append((xt.canon_tree(stripped), x))
            deep = sum(1 for n in T.iter() if n.kids) >= 2
            if deep and s1 and s2:
                st.nontriv((a, b))
                st.sample(desc, 2)
            differs_raw = xt.doc_eq(xt.from_lxml(etree.fromstring(a)), xt.from_lxml(etree.fromstring(b)), none_eq_empty=True) is not None
            # (b) the table
            fa, fb = os.path.join(d, f"a{idx}.xml"), os.path.join(d, f"b{idx}.xml")
            open(fa, "w", encoding="utf-8", newline="").write(a)
            open(fb, "w", encoding="utf-8", newline="").write(b)
            rows = [(None, None)] + [(f, n) for f in ("diff", "old", "xml") for n in (0, 1, 2, 3)]
            # ... and xml formatters whose flag is assigned after construction (a subclass that sets it in its own __init__
            # does the same): the flag in effect is the one the formatter has when it is used
            rows += [("xml", (n0, n1)) for n0, n1 in ((0, 2), (1, 2), (2, 0), (3, 0), (0, 3), (3, 1))]
            # the matching mode rotates over the three modes of the differ (the statement is about every way of diffing)
            dopts, cli_mode = [({}, []), ({"fast_match": True}, ["--fast-match"]), ({"best_match": True}, ["--best-match"])][idx % 3]
            desc["diff_options"] = repr(dopts)
            st.count("matching_mode_" + (cli_mode[0][2:] if cli_mode else "default"))
            # every third case hands diff_texts str inputs that begin with an XML declaration (without an encoding)
            if idx % 3 == 2 and not a.startswith("<?xml"):
                a, b = '<?xml version="1.0"?>\n' + a, '<?xml version="1.0"?>\n' + b
                desc["declaration"] = True
            for fname, norm in rows:
                if isinstance(norm, tuple):
                    n_built, norm = norm

                    def mk(n_built=n_built, norm=norm):
                        f_ = formatting.XMLFormatter(normalize=n_built)
                        f_.normalize = norm
                        return f_

                    strips = bool(norm & 1)
                    row = {"formatter": "xml", "normalize": norm, "normalize_at_construction": n_built, **desc}
                    try:
                        for how, res in (("texts", main.diff_texts(a, b, diff_options=dict(dopts), formatter=mk())),
                                         ("files", main.diff_files(fa, fb, diff_options=dict(dopts), formatter=mk()))):
                            marked = DIFF_NS in res or "diff:" in res
                            if norm != 0 and marked:
                                st.failures.append({"sig": f"C14/xml-output-has-markup/normalize={norm}/flag-assigned-after-construction/{how}", **row})
                            if norm == 0 and differs_raw and not marked:
                                st.failures.append({"sig": f"C14/xml-output-lacks-markup/normalize=0/flag-assigned-after-construction/{how}", **row})
                    except Exception as e:  # noqa
                        st.failures.append({"sig": f"C14/raises/{real.exc_sig(e)}/xml/flag-assigned-after-construction", **row})
                    continue
                mk = {None: lambda: None, "diff": lambda: formatting.DiffFormatter(normalize=norm),
                      "old": lambda: formatting.XmlDiffFormatter(normalize=norm), "xml": lambda: formatting.XMLFormatter(normalize=norm)}[fname]
                strips = True if fname is None else bool(norm & 1)
                row = {"formatter": fname, "normalize": norm, **desc}
                try:
                    via_text = main.diff_texts(a, b, diff_options=dict(dopts), formatter=mk())
                    via_file = main.diff_files(fa, fb, diff_options=dict(dopts), formatter=mk())
                except Exception as e:  # noqa
                    st.failures.append({"sig": f"C14/raises/{real.exc_sig(e)}/{fname}/{norm}", **row})
                    continue
                for how, res in (("texts", via_text), ("files", via_file)):
                    if fname == "xml":
                        marked = DIFF_NS in res or "diff:" in res
                        if norm != 0 and marked:
                            st.failures.append({"sig": f"C14/xml-output-has-markup/normalize={norm}/{how}", **row})
                        if norm == 0 and differs_raw and not marked:
                            st.failures.append({"sig": f"C14/xml-output-lacks-markup/normalize=0/{how}", **row})
                        continue
                    empty = (res == []) if fname is None else (res == "")
                    if strips and not empty:
                        st.failures.append({"sig": f"C14/reindentation-reported/{fname}/{norm}/{how}", **row})
                    if (not strips) and differs_raw and empty:
                        st.failures.append({"sig": f"C14/reindentation-ignored/{fname}/{norm}/{how}", **row})
                if fname is not None and norm == 0:
                    # the command line: --keep-whitespace is WS_NONE, its absence WS_BOTH (the statement names the flag)
                    import contextlib, io
                    for keep in (False, True):
                        buf = io.StringIO()
                        argv = [fa, fb, "-f", fname] + (["--keep-whitespace"] if keep else []) + cli_mode
                        try:
                            with contextlib.redirect_stdout(buf):
                                main.diff_command(argv)
                        except BaseException as e:  # noqa
                            st.failures.append({"sig": f"C14/cli-raises/{type(e).__name__}/{fname}/keep={keep}", **row})
                            continue
                        out = buf.getvalue()
                        if fname == "xml":
                            marked = DIFF_NS in out or "diff:" in out
                            if (not keep) and marked:
                                st.failures.append({"sig": "C14/cli/xml-output-has-markup/normalised", "argv": argv[2:], **row})
                            if keep and differs_raw and not marked:
                                st.failures.append({"sig": "C14/cli/xml-output-lacks-markup/keep-whitespace", "argv": argv[2:], **row})
                        else:
                            empty = out.strip() == ""
                            if (not keep) and not empty:
                                st.failures.append({"sig": f"C14/cli/reindentation-reported/{fname}", "argv": argv[2:], **row})
                            if keep and differs_raw and empty:
                                st.failures.append({"sig": f"C14/cli/reindentation-ignored/{fname}/keep-whitespace", "argv": argv[2:], **row})
                if fname == "diff" and norm == 0 and differs_raw:
                    try:
                        out = main.patch_text(via_text, a)
                        dd = xt.doc_eq(xt.from_lxml(etree.fromstring(out)), xt.from_lxml(etree.fromstring(b)))
                        if dd:
                            st.failures.append({"sig": "C14/keep-whitespace-script-does-not-roundtrip", "detail": dd, **row})
                    except Exception as e:  # noqa
                        st.failures.append({"sig": f"C14/keep-whitespace-roundtrip-raises/{real.exc_sig(e)}", **row})
        resp = core.run_driver(reqs)
        for (want, x), mo in zip(pend, resp):
            if not mo.startswith("ok "):
                raise core.Infra("blank: " + mo[:100])
            tree, sep = mo[3:].split(" | ")
            got = xt.canon_tree(xt.dec_tree(tree))
            if got != want or sep.strip() != "1":
                st.disagreements.append({"unit": "U10", "what": "blank-stripping parser", "document": x, "real": want[:600], "model": got[:600], "SepContent": sep})
    finally:
        shutil.rmtree(d, ignore_errors=True)
    return st


def run(tier, seed, intensify=False):
    k = 1 if tier == "quick" else 15
    if intensify:
        k *= 3
    return core.merge_all(core.pmap_chunks(_chunk, seed, 400 * k, (tier, "c14")))


def search(tier, seed):
    return run(tier, seed + 67867967, intensify=True)


def replay(path):
    print(json.dumps(json.load(open(path)), indent=1)[:3000])
    return 0
