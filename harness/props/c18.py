"""C18 - the legacy 'old' formatter is total."""
import contextlib
import io
import json
import os
import shutil
import tempfile

from lxml import etree

import core
import cluster
import real
import xt

THEOREMS = ["XmlDiffModel.C18_entries", "XmlDiffModel.C18_total_of_strict", 'XmlDiffModel.C18_old_formatter_total_on_differ_scripts']
PARTIAL = {
    "C18_namespaces": "proved: for every script the documented (strict) semantics accepts, the formatter completes and yields at "
    "least one entry per action (C18_total_of_strict, C18_entries), and every script the differ generates is such a script "
    "(C18_old_formatter_total_on_differ_scripts, via C05_differ_script_accepted), for documents of any size and every good "
    "matching; the theorems hold for every assignment of step names to tags, which covers namespaced documents (model and code are compared on them, stream nsm). NOT modelled: the process-global prefix registration of lxml (oracle stream ns).",
}
LEAN_MODULES = ['XmlDiffModel.Props.C01', "XmlDiffModel.Props.C18"]
SOURCES = ["formatting.XmlDiffFormatter", "patch.Patcher"]
RULE = (
    "U11: XmlDiffFormatter().format(script, left) on real differ scripts vs. OldFormat.oldFormat; oracle: diff_trees / diff_texts "
    "with formatter=XmlDiffFormatter and xmldiff -f old complete and return at least one bracketed entry per action. Non-trivial = "
    "script with a move or an insert at position > 0 (the handlers that look siblings up); distinct by (L, R, options)."
)
ASSUMPTIONS = ["namespaced documents (stream nsm) are compared with the model as well: the step name of a Clark-notation tag is the prefix the working copy uses for its URI; prefix registration itself is outside the model"]
FRESH = 2000


def _chunk(seed, lo, hi, extra):
    from xmldiff import main, formatting

    tier, stream = extra
    st = core.Stats()
    reqs, cases = [], []
    for idx in range(lo, hi):
        L, R, opts = cluster.case_for(seed, stream, idx, tier)
        c = {"L": L, "R": R, "opts": opts, "idx": idx}
        cases.append(c)
        try:
            script = main.diff_trees(xt.to_lxml(L), xt.to_lxml(R), diff_options=opts)
        except Exception as e:  # noqa
            c["script"] = None
            continue
        c["script"] = script
        try:
            c["old"] = "ok " + xt.enc_str(formatting.XmlDiffFormatter().format(script, xt.to_lxml(L)))
            c["exc"] = None
        except Exception as e:  # noqa
            c["old"] = "err " + type(e).__name__
            c["exc"] = real.exc_sig(e)
        c["req"] = len(reqs)
        nsq = ""
        if getattr(L, "nsmap", None) or getattr(R, "nsmap", None):
            u2p = {}
            for pre, uri in (L.nsmap or {}).items():
                u2p.setdefault(uri, pre)
            for pre, uri in (R.nsmap or {}).items():
                u2p.setdefault(uri, pre)
            nsq = "ns\t" + "|".join(f"{u}={p_}" for u, p_ in sorted(u2p.items())) + "\t"
        reqs.append(f"{nsq}old\t{FRESH}\t{xt.enc_tree(L)}\t{xt.enc_script(script)}")
    resp = core.run_driver(reqs)
    for c in cases:
        st.evaluations += 1
        if c["script"] is None:
            continue
        L, R, opts, script = c["L"], c["R"], c["opts"], c["script"]
        desc = {"left": xt.to_xml(L), "right": xt.to_xml(R), "options": repr(opts), "script": xt.show_script(script)[:30]}
        st.units["U11"] = st.units.get("U11", 0) + 1
        mo = resp[c["req"]]
        if c["old"].startswith("ok"):
            if mo != c["old"]:
                st.disagreements.append({"unit": "U11", "real": xt.dec_str(c["old"][3:])[:800], "model": (xt.dec_str(mo[3:]) if mo.startswith("ok ") else mo)[:800], **desc})
        else:
            if not mo.startswith("err"):
                st.disagreements.append({"unit": "U11", "real": c["old"], "model": mo[:300], **desc})
        # oracle: through the API with the formatter
        try:
            out = main.diff_trees(xt.to_lxml(L), xt.to_lxml(R), diff_options=opts, formatter=formatting.XmlDiffFormatter())
            n = sum(1 for line in out.split("\n") if line.startswith("["))
            if n < len(script):
                st.failures.append({"sig": "C18/fewer-entries-than-actions", "entries": n, **desc})
        except Exception as e:  # noqa
            st.failures.append({"sig": f"C18/raises/{real.exc_sig(e)}", **desc})
        if c["idx"] % 40 == 0:
            # one formatter object for several documents: the same path string, its prefix bound to another URI each time
            r = core.rng_for(seed, "U11reuse", c["idx"])
            pre = r.choice(["p", "q", "nsx"])
            shared = formatting.XmlDiffFormatter()
            for uri in r.sample(["urn:verif:one", "urn:verif:two", "urn:verif:three"], 3) + ["urn:verif:one"]:
                lt = '<r xmlns:%s="%s"><%s:b k="1"><i/></%s:b><%s:c/></r>' % (pre, uri, pre, pre, pre)
                rt = '<r xmlns:%s="%s"><%s:b j="1"><i/><n/></%s:b><m/><%s:c/></r>' % (pre, uri, pre, pre, pre)
                d2 = {"history_prefix": pre, "uri": uri, "left": lt, "right": rt}
                try:
                    plain = main.diff_texts(lt, rt)
                    got = main.diff_texts(lt, rt, formatter=shared)
                    n2 = sum(1 for line in got.split("\n") if line.startswith("["))
                    if n2 < len(plain):
                        st.failures.append({"sig": "C18/fewer-entries-than-actions/reused-formatter", "entries": n2, **d2})
                except Exception as e:  # noqa
                    st.failures.append({"sig": f"C18/raises/reused-formatter/{real.exc_sig(e)}", **d2})
        if any(type(a).__name__ == "MoveNode" or (type(a).__name__ == "InsertNode" and a.position > 0) for a in script):
            st.nontriv((desc["left"], desc["right"], desc["options"]))
            st.sample({"left": desc["left"], "right": desc["right"], "options": desc["options"]}, 2)
    return st


def _cli_chunk(seed, lo, hi, extra):
    from xmldiff import main, formatting
    from props import c02

    st = core.Stats()
    d = tempfile.mkdtemp(prefix="verif_c18_")
    try:
        for idx in range(lo, hi):
            L, R, opts = c02.text_case(seed + 1, idx)
            lx, rx = xt.to_xml(L), xt.to_xml(R)
            lf, rf = os.path.join(d, "l.xml"), os.path.join(d, "r.xml")
            open(lf, "w", encoding="utf-8").write(lx)
            open(rf, "w", encoding="utf-8").write(rx)
            st.evaluations += 1
            st.units["U10old"] = st.units.get("U10old", 0) + 1
            try:
                buf = io.StringIO()
                with contextlib.redirect_stdout(buf):
                    main.diff_command([lf, rf, "-f", "old"])
                api = main.diff_files(lf, rf, formatter=formatting.XmlDiffFormatter(normalize=formatting.WS_BOTH),
                                      diff_options={"ignored_attrs": [], "ratio_mode": "fast", "F": None, "fast_match": False, "best_match": False,
                                                    "uniqueattrs": ["{http://www.w3.org/XML/1998/namespace}id"]})
                if buf.getvalue() != api + "\n":
                    st.failures.append({"sig": "C18/cli-differs-from-api", "left": lx, "right": rx})
            except BaseException as e:  # noqa
                st.failures.append({"sig": f"C18/cli-raises/{type(e).__name__}", "left": lx, "right": rx})
    finally:
        shutil.rmtree(d, ignore_errors=True)
    return st


def run(tier, seed, intensify=False):
    k = 1 if tier == "quick" else 15
    if intensify:
        k *= 3
    parts = core.pmap_chunks(_chunk, seed, 3000 * k, (tier, "main"))
    parts += core.pmap_chunks(_chunk, seed, 300 * k, (tier, "wide"))
    parts += core.pmap_chunks(_chunk, seed, 600 * k, (tier, "nsm"))
    parts += core.pmap_chunks(_cli_chunk, seed, 100 * k, (tier, "cli"))
    ns = core.merge_all(core.pmap_chunks(cluster.run_ns_cases, seed, 800 * k, (tier, "ns")))
    ns.failures = [f for f in ns.failures if f["prop"] == "C18"]
    parts.append(ns)
    return core.merge_all(parts)


def search(tier, seed):
    return run(tier, seed + 32452843, intensify=True)


def replay(path):
    print(json.dumps(json.load(open(path)), indent=1)[:3000])
    return 0
