"""C16 - the character-level text diff preserves both texts."""
import itertools
import json

import core
import xt

THEOREMS = [
    "XmlDiffModel.C16_main_reconstructs",
    "XmlDiffModel.C16_main_reconstructs_nolines",
    "XmlDiffModel.C16_merge_reconstructs",
    "XmlDiffModel.C16_semantic_reconstructs",
    "XmlDiffModel.C16_diff_and_clean",
    "XmlDiffModel.C16_join_keeps_both_texts",
    "XmlDiffModel.C16_realign_keeps_texts",
    "XmlDiffModel.C16_realign_after_do_tree",
]
PARTIAL = {
    "C16_nonempty": "NOT proved: absence of empty segments (it is false of the vendored engine in line mode: known finding E1); decided per run by "
    "the oracle. Proved for every pair of strings (with line mode on: of at most 55 293 characters together, so that the line table "
    "can be encoded as characters; without line mode: unbounded), every fuel and every behaviour of diff_bisect (any split point or "
    "none - this covers the deadline): diff_main (prefix/suffix trimming, substring shortcut, half match, line mode with its re-diff "
    "loop, bisection), diff_cleanupMerge (both passes) and diff_cleanupSemantic (elimination, lossless shift, overlap extraction) "
    "reconstruct the first text from equal+delete and the second from equal+insert; join keeps both texts; and the re-balancing step "
    "(_realign_placeholders), for every table a history of do_tree calls on one maker builds, every segment list and every stack, "
    "keeps both reconstructions up to opening / closing placeholders whenever it returns (C16_realign_keeps_texts, "
    "C16_realign_after_do_tree). The realign model is compared with the code (U8/U9) and the table hypothesis (every opening entry "
    "records a closing entry's placeholder) is checked on the real maker in every realign case.",
}
LEAN_MODULES = ["XmlDiffModel.Props.C16"]
SOURCES = ["formatting.XMLFormatter._realign_placeholders", "formatting.XMLFormatter._join_delete_insert", "formatting.XMLFormatter._make_diff_tags"]
RULE = (
    "U8: diff_main and diff_cleanupSemantic of the vendored engine (clock frozen; diff_bisect's split points recorded by subclassing the "
    "engine in the harness) vs. Dmp.diffMain / cleanupSemantic on (a) every pair of strings over {a, b, space} up to length 4 (quick) / 5 "
    "(thorough), (b) random sentences with repeated substrings and punctuation, (c) multi-line texts longer than 100 characters (line "
    "mode), (d) placeholder strings obtained by substituting two mixed-content elements with one maker. Oracle on the real engine: "
    "equal+delete segments rebuild text1, equal+insert rebuild text2, no empty segment - before and after the semantic clean-up - and "
    "_realign_placeholders keeps both reconstructions up to open/close placeholders. Non-trivial = at least three segments after clean-up; "
    "distinct by the string pair."
)
ASSUMPTIONS = [
    "time.time() is frozen for the runs (the module's `time` reference is replaced from outside), so real runs correspond to the oracle "
    "'no deadline'; the theorems hold for every bisect behaviour",
    "boundary scores use ASCII character classes; the correspondence alphabet is ASCII plus private-use placeholders",
]

WORDS = ["the", "quick", "brown", "fox", "jumps", "over", "lazy", "dog", "cat", "a", "at", "came", "hello", "world", "there", "xx", "xyx", "."]


class FakeTime:
    @staticmethod
    def time():
        return 0.0


def make_engine():
    from xmldiff import diff_match_patch as dmpmod

    class Rec(dmpmod.diff_match_patch):
        def __init__(self):
            super().__init__()
            self.table = {}

        def diff_bisect(self, t1, t2, deadline):
            self.table.setdefault((t1, t2), None)
            return super().diff_bisect(t1, t2, deadline)

        def diff_bisectSplit(self, t1, t2, x, y, deadline):
            self.table[(t1, t2)] = (x, y)
            return super().diff_bisectSplit(t1, t2, x, y, deadline)

    return dmpmod, Rec()


def enc_diff(d):
    return ",".join({-1: "d", 1: "i", 0: "e"}[op] + ":" + xt.enc_str(t) for op, t in d)


def recon_problem(d, a, b):
    t1 = "".join(t for op, t in d if op != 1)
    t2 = "".join(t for op, t in d if op != -1)
    if t1 != a:
        return "text1-not-reconstructed"
    if t2 != b:
        return "text2-not-reconstructed"
    if any(t == "" for _, t in d):
        return "empty-segment"
    return None


def sentence(r, n):
    return " ".join(r.choice(WORDS) for _ in range(n))


def edit(r, s):
    s = list(s)
    for _ in range(r.randint(1, 4)):
        if not s:
            s = list(r.choice(WORDS))
            continue
        i = r.randrange(len(s) + 1)
        m = r.random()
        if m < 0.35:
            s[i:i] = list(r.choice(WORDS) + " ")
        elif m < 0.7:
            j = min(len(s), i + r.randint(1, 6))
            del s[i:j]
        else:
            j = min(len(s), i + r.randint(1, 4))
            s[i:j] = list(r.choice(WORDS))
    return "".join(s)


def gen_pair(seed, idx, tier):
    r = core.rng_for(seed, "U8", idx)
    m = r.random()
    if m < 0.06:
        # the same block replaced by the same other block at two (or three) places around shared text: the pair of
        # middle blocks reaches diff_bisect more than once within one diff
        w1, w2 = r.sample([w for w in WORDS if len(w) >= 2] + ["1999", "2024", "aa", "cc", "red", "blue"], 2)
        seps = [r.choice([" and ", "-", "b", " ", ", ", " or "]) for _ in range(r.randint(1, 2))]
        a = w1 + "".join(sp + w1 for sp in seps)
        b = w2 + "".join(sp + w2 for sp in seps)
    elif m < 0.45:
        a = sentence(r, r.randint(0, 8))
        b = edit(r, a) if r.random() < 0.8 else sentence(r, r.randint(0, 8))
    elif m < 0.6:
        alpha = r.choice(["ab", "ab ", "abc\n", "a "])
        a = "".join(r.choice(alpha) for _ in range(r.randint(0, 12)))
        b = "".join(r.choice(alpha) for _ in range(r.randint(0, 12)))
    elif m < 0.8:
        # multi-line texts longer than 100 characters: line mode
        lines = [sentence(r, r.randint(2, 6)) for _ in range(r.randint(4, 9))]
        a = "\n".join(lines) + ("\n" if r.random() < 0.5 else "")
        l2 = list(lines)
        for _ in range(r.randint(1, 3)):
            k = r.randrange(len(l2))
            c = r.random()
            if c < 0.3:
                del l2[k]
            elif c < 0.6:
                l2.insert(k, sentence(r, r.randint(1, 5)))
            else:
                l2[k] = edit(r, l2[k])
            if not l2:
                l2 = [sentence(r, 3)]
        b = "\n".join(l2) + ("\n" if r.random() < 0.5 else "")
    else:
        # placeholder strings: private-use characters as opaque symbols between words
        ph = [chr(0xE007 + k) for k in range(6)]
        toks = []
        for _ in range(r.randint(2, 8)):
            toks.append(r.choice(WORDS) if r.random() < 0.6 else r.choice(ph))
        a = " ".join(toks)
        b = edit(r, a)
    return a, b


def _chunk(seed, lo, hi, extra):
    tier, mode = extra
    st = core.Stats()
    dmpmod, _ = make_engine()
    saved = dmpmod.time
    dmpmod.time = FakeTime
    reqs, pend = [], []
    try:
        if mode == "exh":
            cases = EXH[lo:hi]
        else:
            cases = [gen_pair(seed, i, tier) for i in range(lo, hi)]
        for a, b in cases:
            _, eng = make_engine()
            st.evaluations += 1
            st.units["U8"] = st.units.get("U8", 0) + 1
            desc = {"text1": a, "text2": b}
            try:
                d = eng.diff_main(a, b)
                main = [(op, t) for op, t in d]
                eng.diff_cleanupSemantic(d)
                clean = [(op, t) for op, t in d]
            except Exception as e:  # noqa
                st.failures.append({"sig": f"C16/raises/{type(e).__name__}", **desc})
                continue
            linemode = len(a) > 100 and len(b) > 100
            for stage, dd in (("main", main), ("semantic", clean)):
                p = recon_problem(dd, a, b)
                if p:
                    sig = f"C16/{p}/line-mode/{stage}" if linemode and p == "empty-segment" else f"C16/{p}/{stage}"
                    st.failures.append({"sig": sig, "segments": dd[:20], **desc})
            if len(clean) >= 3:
                st.nontriv((a, b))
                st.sample({"text1": a[:80], "text2": b[:80], "segments": clean[:8]}, 3)
            tbl = " ".join(
                f"{xt.enc_str(k[0])}:{xt.enc_str(k[1])}:" + (f"{v[0]}:{v[1]}" if v else "n:n") for k, v in eng.table.items()
            )
            reqs.append(f"dmp\t{xt.enc_str(a)}\t{xt.enc_str(b)}\t{tbl}")
            pend.append(("ok " + enc_diff(main) + " | " + enc_diff(clean), desc))
    finally:
        dmpmod.time = saved
    resp = core.run_driver(reqs)
    for (want, desc), mo in zip(pend, resp):
        if mo.strip() != want.strip():
            st.disagreements.append({"unit": "U8", "real": want[:700], "model": mo[:700], **desc})
    return st


def _realign_chunk(seed, lo, hi, extra):
    """_realign_placeholders / _join_delete_insert on placeholder strings from one maker."""
    from xmldiff import formatting, diff_match_patch as dmpmod
    from props import c11

    st = core.Stats()
    saved = dmpmod.time
    dmpmod.time = FakeTime
    try:
        for idx in range(lo, hi):
            r = core.rng_for(seed, "U8r", idx)
            fmt = tuple(t for t in ["b", "i", "s", "a"] if r.random() < 0.6)
            f = formatting.XMLFormatter(text_tags=("p",), formatting_tags=fmt)
            from xmlfmt import para, html_edit
            import xmlfmt
            L = xmlfmt.para(r)
            R = L.copy()
            holder = xt.PNode("e", "doc", [], None, None, [R])
            R = xmlfmt.html_edit(r, holder).kids[0] if holder.kids else R
            le, re_ = xt.to_lxml(L), xt.to_lxml(R)
            try:
                f.placeholderer.do_tree(le)
                f.placeholderer.do_tree(re_)
            except Exception:  # noqa
                continue
            a, b = le.text or "", re_.text or ""
            st.evaluations += 1
            st.units["U8realign"] = st.units.get("U8realign", 0) + 1
            eng = dmpmod.diff_match_patch()
            d = eng.diff_main(a, b)
            eng.diff_cleanupSemantic(d)
            desc = {"text1": a, "text2": b, "formatting_tags": fmt}
            try:
                rd = f._realign_placeholders(d)
            except AssertionError:
                st.failures.append({"sig": "C16/realign-assertion", **desc})
                continue
            # hypothesis `Closed` of C16_realign_keeps_texts on the real table
            p2t = f.placeholderer.placeholder2tag
            for ph, e in p2t.items():
                if e.ttype == formatting.T_OPEN and not (e.close_ph in p2t and p2t[e.close_ph].ttype == formatting.T_CLOSE):
                    st.disagreements.append({"unit": "U8realign", "real": f"open entry {ord(ph):#x} without closing entry",
                                             "model": "Closed (hypothesis of C16_realign_keeps_texts)", **desc})
                    break
            # both reconstructions survive up to open / close placeholders
            oc = {ph for ph, e in f.placeholderer.placeholder2tag.items() if e.ttype in (formatting.T_OPEN, formatting.T_CLOSE)}
            strip = lambda s: "".join(c for c in s if c not in oc)  # noqa
            t1 = "".join(t for op, t in rd if op != 1)
            t2 = "".join(t for op, t in rd if op != -1)
            if strip(t1) != strip(a) or strip(t2) != strip(b):
                st.failures.append({"sig": "C16/realign-changes-text", "realigned": rd[:20], **desc})
            if any(t == "" for _, t in rd):
                st.failures.append({"sig": "C16/realign-empty-segment", **desc})
            jd = f._join_delete_insert(list(rd))
            j1 = "".join((x[2] if x[0] == 2 else x[1]) for x in jd if x[0] != 1)
            j2 = "".join(x[1] for x in jd if x[0] != -1)
            if j1 != t1 or j2 != t2:
                st.failures.append({"sig": "C16/join-changes-text", **desc})
            if len(rd) >= 3:
                st.nontriv((a, b, fmt))
    finally:
        dmpmod.time = saved
    return st


EXH = []


def run(tier, seed, intensify=False):
    global EXH
    n = 4 if tier == "quick" and not intensify else 5
    alpha = "ab "
    strs = [""] + ["".join(t) for k in range(1, n + 1) for t in itertools.product(alpha, repeat=k)]
    EXH = [(a, b) for a in strs for b in strs]
    k = 1 if tier == "quick" else 20
    if intensify:
        k *= 3
    parts = core.pmap_chunks(_chunk, seed, len(EXH), (tier, "exh"))
    parts += core.pmap_chunks(_chunk, seed, 5000 * k, (tier, "rand"))
    parts += core.pmap_chunks(_realign_chunk, seed, 1500 * k, (tier, "realign"))
    st = core.merge_all(parts)
    st.hist["exhaustive_spaces"] = 1
    st.hist["exhaustive_alphabet_len"] = n
    return st


def search(tier, seed):
    return run(tier, seed + 5915587277 % 100000, intensify=True)


def replay(path):
    print(json.dumps(json.load(open(path)), indent=1)[:3000])
    return 0
