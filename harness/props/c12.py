"""C12 - the LCS helper returns a valid, ordered, maximum-length common subsequence."""
import itertools
import json

import core

THEOREMS = [
    "XmlDiffModel.C12_valid",
    "XmlDiffModel.C12_increasing",
    "XmlDiffModel.C12_total",
    "XmlDiffModel.C12_maximum",
]
PARTIAL = {}
LEAN_MODULES = ["XmlDiffModel.Props.C12"]
SOURCES = ["utils.longest_common_subsequence"]
RULE = (
    "U3: utils.longest_common_subsequence(range(n), range(m), matrix lookup) vs. Lcs.lcs in the Lean driver; "
    "cases = every relation for all n,m <= bound (exhaustive) + seeded random relations of mixed density up to "
    "12x12 (quick) / 30x30 (thorough); every fourth case also with a predicate that calls the helper itself. Non-trivial = the optimum (by an independent DP) is strictly between 0 "
    "and min(n,m); distinct by (n, m, relation bits)."
)
ASSUMPTIONS = [
    "the helper reads its sequences only through eqfn(left[i], right[j]) (true of the source; the model takes the relation on indices)",
]


def real_lcs(n, m, bits, nested=False):
    from xmldiff import utils

    calls = []

    def eqfn(i, j):
        if nested:
            # a predicate that uses the helper itself (a similarity of two words by their common letters): the statement
            # is about any predicate, and the answer for (i, j) is the same relation bit
            utils.longest_common_subsequence("abcab%d" % i, "bacb%d" % j, lambda x, y: x == y)
        return bits[i * m + j] == "1"

    try:
        r = utils.longest_common_subsequence(list(range(n)), list(range(m)), eqfn)
        if r is None:
            return "fellOff"
        r = list(r)
        return "ok " + " ".join(f"{a},{b}" for a, b in r)
    except KeyError:
        return "keyError"
    except Exception as e:  # any other exception class is reported verbatim
        return "exc:" + type(e).__name__


def dp_opt(n, m, bits):
    prev = [0] * (m + 1)
    for i in range(n):
        cur = [0] * (m + 1)
        for j in range(m):
            if bits[i * m + j] == "1":
                cur[j + 1] = prev[j] + 1
            else:
                cur[j + 1] = max(prev[j + 1], cur[j])
            # a matching pair may also be skipped
            cur[j + 1] = max(cur[j + 1], prev[j + 1], cur[j])
        prev = cur
    return prev[m]


def oracle(n, m, bits, out):
    """The property, literally, on the real output. Returns None or a failure signature."""
    if not out.startswith("ok"):
        return "C12/no-result/" + out
    ps = [tuple(int(x) for x in p.split(",")) for p in out[3:].split()] if len(out) > 3 else []
    for a, b in ps:
        if not (0 <= a < n and 0 <= b < m):
            return "C12/index-out-of-range"
        if bits[a * m + b] != "1":
            return "C12/pair-not-related"
    for (a, b), (c, d) in zip(ps, ps[1:]):
        if not (a < c and b < d):
            return "C12/not-strictly-increasing"
    if len(ps) != dp_opt(n, m, bits):
        return "C12/not-maximum"
    return None


def gen_case(seed, idx, tier):
    r = core.rng_for(seed, "U3", idx)
    top = 12 if tier == "quick" else 30
    n = r.randint(0, top)
    m = r.randint(0, top)
    mode = r.random()
    if mode < 0.3:
        dens = r.choice([0.05, 0.15, 0.3, 0.5, 0.8])
        bits = "".join("1" if r.random() < dens else "0" for _ in range(n * m))
    elif mode < 0.8:
        # relation induced by two words over a small alphabet, then perturbed (not an equivalence)
        k = r.randint(1, 4)
        xs = [r.randrange(k) for _ in range(n)]
        ys = [r.randrange(k) for _ in range(m)]
        flip = r.choice([0, 0, 0.03, 0.1])
        bits = "".join(
            ("1" if (xs[i] == ys[j]) != (r.random() < flip) else "0") for i in range(n) for j in range(m)
        )
    else:
        # a permuted identity with noise: long diagonals with breaks
        xs = list(range(n))
        ys = list(range(m))
        if ys:
            for _ in range(r.randint(0, 3)):
                a = r.randrange(len(ys)); b = r.randrange(len(ys))
                ys.insert(b, ys.pop(a))
        bits = "".join("1" if xs[i] == ys[j] else "0" for i in range(n) for j in range(m))
    return n, m, bits


def exhaustive_cases(bound):
    for n in range(bound + 1):
        for m in range(bound + 1):
            for tup in itertools.product("01", repeat=n * m):
                yield n, m, "".join(tup)


def _chunk(seed, lo, hi, extra):
    tier, mode = extra
    st = core.Stats()
    if mode == "exh":
        cases = EXH[lo:hi]
    elif mode == "corpus":
        cases = CORPUS[lo:hi]
    else:
        cases = [gen_case(seed, i, tier) for i in range(lo, hi)]
    reqs = [f"lcs\t{n}\t{m}\t{bits}" for n, m, bits in cases]
    model = core.run_driver(reqs)
    for (n, m, bits), mo in zip(cases, model):
        real = real_lcs(n, m, bits)
        st.evaluations += 1
        st.units["U3"] = st.units.get("U3", 0) + 1
        st.count(f"size_{min(n, m) // 4 * 4}+")
        opt = dp_opt(n, m, bits)
        if 0 < opt < min(n, m):
            st.nontriv((n, m, bits))
        if real != mo:
            st.disagreements.append({"unit": "U3", "n": n, "m": m, "bits": bits, "real": real, "model": mo})
        sig = oracle(n, m, bits, real)
        if sig:
            st.failures.append({"sig": sig, "n": n, "m": m, "bits": bits, "real": real})
        if st.evaluations % 4 == 0 and n * m <= 144:
            st.count("predicate_calls_the_helper")
            rn = real_lcs(n, m, bits, nested=True)
            sig = oracle(n, m, bits, rn)
            if sig or rn != real:
                st.failures.append({"sig": (sig or "C12/result-differs") + "/predicate-calls-the-helper", "n": n, "m": m, "bits": bits, "real": rn})
        if 0 < opt < min(n, m) and n >= 3:
            st.sample({"n": n, "m": m, "relation_rows": [bits[i * m:(i + 1) * m] for i in range(n)], "result": real})
    return st


EXH = []
CORPUS = []


def _load_corpus():
    import os

    p = os.path.join(core.VERIF, "corpus", "C12.json")
    if os.path.exists(p):
        return [tuple(c) for c in json.load(open(p))]
    return []


def run(tier, seed, intensify=False):
    global EXH, CORPUS
    CORPUS = _load_corpus()
    bound = 3 if tier == "quick" and not intensify else 4
    EXH = list(exhaustive_cases(bound)) if bound <= 3 else None
    parts = []
    if CORPUS:
        parts += core.pmap_chunks(_chunk, seed, len(CORPUS), (tier, "corpus"), jobs=1)
    if bound <= 3:
        parts += core.pmap_chunks(_chunk, seed, len(EXH), (tier, "exh"))
    else:
        parts += _run_exh4(seed, tier)
    nrand = 20000 if tier == "quick" else 300000
    if intensify:
        nrand *= 2
    parts += core.pmap_chunks(_chunk, seed, nrand, (tier, "rand"))
    st = core.merge_all(parts)
    st.hist["exhaustive_spaces"] = 1
    st.hist["exhaustive_bound_nm"] = bound
    return st


def _exh4_chunk(seed, lo, hi, extra):
    """Exhaustive n,m<=4 is 2^16 relations for 4x4 alone: enumerate by (n, m, block)."""
    global EXH
    tier, blocks = extra
    st = core.Stats()
    for n, m, b0, b1 in blocks[lo:hi]:
        EXH = [(n, m, format(v, f"0{n * m}b") if n * m else "") for v in range(b0, b1)]
        st.merge(_chunk(seed, 0, len(EXH), (tier, "exh")))
    return st


def _run_exh4(seed, tier):
    blocks = []
    for n in range(5):
        for m in range(5):
            total = 1 << (n * m)
            step = 4096
            for b0 in range(0, total, step):
                blocks.append((n, m, b0, min(total, b0 + step)))
    return core.pmap_chunks(_exh4_chunk, seed, len(blocks), (tier, blocks), chunk=1)


def search(tier, seed):
    """Intensified failing-input search on the real code (only its failures are used)."""
    return run(tier, seed + 7919, intensify=True)


def replay(path):
    d = json.load(open(path))
    core.import_repo()
    if "bits" not in d:
        print(json.dumps(d, indent=1)[:2000])
        return 0
    real = real_lcs(d["n"], d["m"], d["bits"])
    sig = oracle(d["n"], d["m"], d["bits"], real)
    print("real:", real, "oracle:", sig)
    return 1 if sig else 0
