"""C05 - decided by the differ cluster (see cluster.py and DESIGN.md section 6)."""
import sys

from props import _cluster

THEOREMS = ['XmlDiffModel.C05_strict_refines_to_shipped', 'XmlDiffModel.C05_strict_step_refines', 'XmlDiffModel.C05_attribute_actions_applicable', 'XmlDiffModel.C05_shipped_accepts_script', 'XmlDiffModel.C05_differ_script_accepted']
PARTIAL = {}
LEAN_MODULES = ['XmlDiffModel.Props.C01', 'XmlDiffModel.Props.C05', 'XmlDiffModel.Props.Replay']
SOURCES = ['diff.Differ.diff', 'diff.Differ.update_node_attr', 'diff.Differ.find_pos', 'patch.Patcher']
RULE = 'Differ cluster: the real script is replayed action by action under the strict (documented) semantics in the Lean model: attribute preconditions, positions within 0..childCount, no move into own subtree, delete only childless nodes; result compared with R. U2 compares the shipped patcher with its model on the same scripts. Non-trivial = script has >= 2 action types or a move.'
ASSUMPTIONS = [
    "documents of the C01 domain; namespaced documents (stream nsm) are compared with the model too, the step name of a Clark-notation tag being the prefix the working copy uses for its URI; only the namespace prologue (InsertNamespace / DeleteNamespace, prefix registration) is outside the model and exercised by the oracle stream ns",
    "similarity values (difflib.SequenceMatcher, sqrt) are an oracle recorded from the real node_ratio for every comparable pair",
]
_cluster.make(sys.modules[__name__], 'C05', {'U2','U5','E2E'}, [('main',3500),('wide',300),('nsm',600)], [('nsm',12000),('main',60000),('simple',20000),('wide',5000)])
