"""C06 - diffing and patching are pure: inputs untouched, deterministic, no history."""
import copy
import hashlib
import json
import os
import subprocess
import sys

from lxml import etree

import core
import cluster
import gen
import real
import xt

THEOREMS = ["XmlDiffModel.C06_differ_history", "XmlDiffModel.C06_patcher_history", "XmlDiffModel.C06_sorted_order_indep", "XmlDiffModel.C06_frame"]
PARTIAL = {
    "C06 (runtime aliasing, hash order, global registry)": "the model states the logic: an instance's observable result is a function of "
    "the call's arguments only, sorted() makes the attribute-action order independent of set iteration order, and the model's diff/"
    "patch never touch their inputs (they are values); actual aliasing of lxml objects, CPython set/dict iteration under "
    "PYTHONHASHSEED and lxml's process-global prefix registry are runtime behaviour observed by unit U12 (histories on one instance, "
    "serialisations before/after, subprocesses under several hash seeds, polluted registry), not proved. Wall-clock dependence of the "
    "text-diff deadline (> 1 s diffs) is not exhibited by any generated input.",
}
LEAN_MODULES = ["XmlDiffModel.Props.C06"]
SOURCES = ["diff.Differ.diff", "diff.Differ.match", "diff.Differ.set_trees", "diff.Differ.clear", "patch.Patcher.patch", "main.diff_trees", "main.patch_tree"]
RULE = (
    "U12: for a generated (L, R, options): a fresh result vs. the result of the same call (a) repeated, (b) on a Differ that has "
    "processed 1-4 other pairs via diff(l,r) / match(l,r) / set_trees+diff(), (c) through a reused DiffFormatter / XmlDiffFormatter / "
    "XMLFormatter / Patcher instance with history, (d) after diffing namespaced documents that bind the same prefixes to other URIs "
    "(process-global lxml registry); serialisations of both inputs and of the action list before/after every call; (e) a fixed corpus "
    "(incl. several new attributes sharing a removed attribute's value) run in subprocesses under PYTHONHASHSEED in {0, 1, 7, 1234} "
    "(quick: {0, 7}) with identical digests; (f) the same document pairs under every matching mode x ratio mode, the calls made in "
    "order by one fresh process and in reverse order by another - every call must give the same script; (g) _ElementTree inputs, a "
    "Patcher and an XMLFormatter across pairs that re-bind one prefix. Non-trivial = non-empty script and a history of >= 2 calls; distinct by (L, R, options, history)."
)
ASSUMPTIONS = ["XMLFormatter modifies the trees it is given in prepare() by design (the property excludes it from the no-modification clause); it gets fresh copies"]


def ser(el):
    return etree.tostring(el, encoding="unicode", with_tail=True)


def attr_pair(r):
    """The shape where a set-iteration order could leak: several new attributes share the value of a removed one."""
    from xt import PNode

    val = r.choice(["42", "x", "v"])
    names = r.sample(["alpha", "bravo", "charlie", "delta", "echo", "foxtrot", "golf"], r.randint(2, 5))
    l = PNode("e", "item", [("key", val), ("keep", "x")] + ([("old2", val)] if r.random() < 0.4 else []), "some text here", None)
    rr = PNode("e", "item", [(n, val) for n in names] + [("keep", "x")], "some text here", None)
    L = PNode("e", "root", [], None, None, [l, PNode("e", "other", [], "o", None)])
    R = PNode("e", "root", [], None, None, [rr, PNode("e", "other", [], "o", None)])
    return L.number(0), R.number(1000), {}


def gen_case(seed, idx):
    r = core.rng_for(seed, "U12", idx)
    if r.random() < 0.15:
        return attr_pair(r) + (r,)
    L, R, opts = cluster.case_for(seed, "main", idx, "quick")
    return L, R, opts, r


def _chunk(seed, lo, hi, extra):
    from xmldiff import main, formatting, diff, patch

    tier, mode = extra
    st = core.Stats()
    for idx in range(lo, hi):
        L, R, opts, r = gen_case(seed, idx)
        st.evaluations += 1
        st.units["U12"] = st.units.get("U12", 0) + 1
        desc = {"left": xt.to_xml(L), "right": xt.to_xml(R), "options": repr(opts)}

        def fail(sig, **kw):
            st.failures.append({"sig": sig, **desc, **kw})

        try:
            le, re_ = xt.to_lxml(L), xt.to_lxml(R)
            sl, sr = ser(le), ser(re_)
            fresh = main.diff_trees(le, re_, diff_options=opts)
            if ser(le) != sl or ser(re_) != sr:
                fail("C06/diff-modified-input-tree/no-formatter")
            # (a) repeat
            if main.diff_trees(le, re_, diff_options=opts) != fresh:
                fail("C06/repeated-call-differs")
            # formatters diff / old leave the inputs alone
            for fcls in (formatting.DiffFormatter, formatting.XmlDiffFormatter):
                main.diff_trees(le, re_, diff_options=opts, formatter=fcls())
                if ser(le) != sl or ser(re_) != sr:
                    fail(f"C06/diff-modified-input-tree/{fcls.__name__}")
            # ... also when the two trees are elements inside larger documents, each followed by text and a sibling
            if idx % 3 == 1:
                from lxml import etree as _et3

                hl, hr = _et3.Element("holder"), _et3.Element("holder")
                for h_, t_ in ((hl, L), (hr, R)):
                    h_.append(_et3.Element("before"))
                    e_ = xt.to_lxml(t_)
                    h_.append(e_)
                    e_.tail = "text after the tree "
                    h_.append(_et3.Element("after"))
                shl, shr = ser(hl), ser(hr)
                for fcls in (None, formatting.DiffFormatter, formatting.XmlDiffFormatter):
                    fname = fcls.__name__ if fcls else "no-formatter"
                    main.diff_trees(hl[1], hr[1], diff_options=opts, formatter=fcls() if fcls else None)
                    if ser(hl) != shl or ser(hr) != shr:
                        fail("C06/diff-modified-input-tree/elements-inside-larger-documents/" + fname)
                        break
            # ... also when the caller hands in _ElementTree objects (copy.copy of a tree object shares its root)
            from lxml import etree as _et0

            lt, rt = _et0.ElementTree(xt.to_lxml(L)), _et0.ElementTree(xt.to_lxml(R))
            slt, srt = ser(lt.getroot()), ser(rt.getroot())
            for fcls in (None, formatting.DiffFormatter, formatting.XmlDiffFormatter):
                fname = fcls.__name__ if fcls else "no-formatter"
                first = main.diff_trees(lt, rt, diff_options=opts, formatter=fcls() if fcls else None)
                if ser(lt.getroot()) != slt or ser(rt.getroot()) != srt:
                    fail("C06/diff-modified-input-tree/element-tree-objects/" + fname)
                    break
                if main.diff_trees(lt, rt, diff_options=opts, formatter=fcls() if fcls else None) != first:
                    fail("C06/repeated-call-differs/element-tree-objects/" + fname)
                    break
            # ... and freshly parsed trees every time, with many candidates that tie (the result may not depend on where
            # the objects happen to live)
            if idx % 10 == 0:
                from lxml import etree as _et2

                tl = "<r>" + "".join("<p>item alpha %d</p>" % i for i in range(1, 3)) + "</r>"
                tr = "<r>" + "".join("<p>item alpha %s</p>" % c for c in "ABCDEFGHIJKLMNOPQRSTUVWXYZabcd") + "</r>"
                for mm in ({"best_match": True}, {"fast_match": True}, {}):
                    outs = set()
                    keep = []
                    for rep in range(4):
                        keep.append([object() for _ in range(rep * 37)])  # shift the allocator a little
                        outs.add(repr(main.diff_trees(_et2.fromstring(tl), _et2.fromstring(tr), diff_options=dict(mm))))
                    if len(outs) != 1:
                        fail("C06/repeated-call-on-fresh-trees-differs", tie_documents=[tl, tr], diff_options=repr(mm), distinct_results=len(outs))
                        break
            # (b) a Differ with history
            d = diff.Differ(**opts)
            hist = []
            for k in range(r.randint(1, 4)):
                oL, oR, _ = cluster.case_for(seed + 17, "main", idx * 7 + k, "quick")
                a, b = xt.to_lxml(oL), xt.to_lxml(oR)
                how = r.choice(["diff", "diff", "match", "set_trees", "partial"])
                hist.append(how)
                try:
                    if how == "diff":
                        list(d.diff(a, b))
                    elif how == "match":
                        d.match(a, b)
                    elif how == "set_trees":
                        d.set_trees(a, b)
                        list(d.diff())
                    else:
                        g = d.diff(a, b)
                        next(g, None)  # abandoned half-way
                except Exception:  # noqa
                    pass
            got = list(d.diff(le, re_))
            if got != fresh:
                fail("C06/differ-with-history-differs", history=hist)
            if ser(le) != sl or ser(re_) != sr:
                fail("C06/diff-modified-input-tree/history")
            # (b') the same tree objects handed to the same Differ again, also after match() and after an in-place edit
            again = list(d.diff(le, re_))
            if again != fresh:
                fail("C06/same-trees-second-diff-differs", history=hist + ["diff(same objects)"])
            d.match(le, re_)
            again = list(d.diff(le, re_))
            if again != fresh:
                fail("C06/same-trees-diff-after-match-differs", history=hist + ["match(same objects)", "diff(same objects)"])
            re_edit = xt.to_lxml(R)
            d2 = diff.Differ(**opts)
            list(d2.diff(le, re_edit))
            tgt = list(re_edit.iter())[-1]
            if isinstance(tgt.tag, str):
                tgt.set("zz", "edited")
            else:
                tgt.text = (tgt.text or "") + " edited"
            want_edit = main.diff_trees(le, re_edit, diff_options=opts)
            if list(d2.diff(le, re_edit)) != want_edit:
                fail("C06/diff-after-in-place-edit-differs")
            if fresh and len(hist) >= 2:
                st.nontriv((desc["left"], desc["right"], desc["options"], tuple(hist)))
                st.sample({**desc, "history": hist}, 2)
            # (c) formatter / patcher instances with history
            oL, oR, _ = cluster.case_for(seed + 29, "main", idx, "quick")
            for fcls, kw in ((formatting.DiffFormatter, {}), (formatting.XmlDiffFormatter, {}), (formatting.XMLFormatter, {}),
                             (formatting.XMLFormatter, {"text_tags": ("a", "b"), "formatting_tags": ("c",)})):
                try:
                    want = main.diff_trees(xt.to_lxml(L), xt.to_lxml(R), diff_options=opts, formatter=fcls(**kw))
                except Exception:  # noqa (totality of the formatters is C08 / C18)
                    continue
                f = fcls(**kw)
                try:
                    main.diff_trees(xt.to_lxml(oL), xt.to_lxml(oR), diff_options=opts, formatter=f)
                except Exception:  # noqa
                    pass
                try:
                    got = main.diff_trees(xt.to_lxml(L), xt.to_lxml(R), diff_options=opts, formatter=f)
                    if got != want:
                        fail(f"C06/formatter-with-history-differs/{fcls.__name__}{'/tags' if kw else ''}")
                except Exception as e:  # noqa
                    fail(f"C06/formatter-with-history-raises/{fcls.__name__}/{real.exc_sig(e)}")
            # (c') the same through the text entry point, where the formatter's normalize flag also decides how the
            # documents are parsed: the history is a call made while the formatter carried another flag value
            if idx % 3 == 0:
                from props import c14
                rr = core.rng_for(seed, "U12fmt", idx)
                T = c14.plain_attrs(c14.sep_tree(rr))
                s1, s2 = rr.sample(c14.SCHEMES, 2)
                a, b = c14.serialize_indented(T, s1), c14.serialize_indented(T, s2)
                for fcls in (formatting.DiffFormatter, formatting.XmlDiffFormatter, formatting.XMLFormatter):
                    for n_hist, n_now in ((formatting.WS_TAGS, formatting.WS_NONE), (formatting.WS_NONE, formatting.WS_BOTH),
                                          (formatting.WS_TEXT, formatting.WS_TAGS)):
                        try:
                            want = main.diff_texts(a, b, formatter=fcls(normalize=n_now))
                            f = fcls(normalize=n_hist)
                            main.diff_texts(b, a, formatter=f)
                            f.normalize = n_now
                            got = main.diff_texts(a, b, formatter=f)
                        except Exception as e:  # noqa
                            fail(f"C06/formatter-with-history-raises/{fcls.__name__}/{real.exc_sig(e)}")
                            continue
                        if got != want:
                            fail(f"C06/formatter-with-history-differs/{fcls.__name__}/normalize-changed-between-calls")
            # patcher
            script_before = list(fresh)
            want = ser(main.patch_tree(fresh, le))
            if ser(le) != sl:
                fail("C06/patch-modified-input-tree")
            if list(fresh) != script_before:
                fail("C06/patch-modified-action-list")
            p = patch.Patcher()
            try:
                oscript = main.diff_trees(xt.to_lxml(oL), xt.to_lxml(oR), diff_options=opts)
                p.patch(oscript, xt.to_lxml(oL))
            except Exception:  # noqa
                pass
            if ser(p.patch(fresh, le)) != want:
                fail("C06/patcher-with-history-differs")
            if ser(main.patch_tree(fresh, le)) != want:
                fail("C06/repeated-patch-differs")
            # (d) global prefix registry
            if idx % 5 == 0:
                nL, nR = gen.ns_pair(core.rng_for(seed, "U12ns", idx), 8)
                a, b = xt.to_lxml(nL), xt.to_lxml(nR)
                try:
                    first = main.diff_trees(a, b)
                    other = {"p": "urn:other:1", "q": "urn:other:2", "x": "urn:other:3"}
                    pa, pb = copy.deepcopy(nL), copy.deepcopy(nR)
                    for t in (pa, pb):
                        t.nsmap = {k: other[k] for k in (t.nsmap or {})}
                        for n in t.iter():
                            if n.kind == "e" and n.tag.startswith("{"):
                                uri = n.tag[1:].split("}")[0]
                                pre = [k for k, v in gen.NS.items() if v == uri]
                                if pre and pre[0] in t.nsmap:
                                    n.tag = "{%s}%s" % (other[pre[0]], n.tag.split("}")[1])
                                else:
                                    n.tag = n.tag.split("}")[1]
                            n.attrs = [(k, v) for k, v in n.attrs if not k.startswith("{urn") and not k.startswith("{http://verif")]
                    try:
                        main.diff_trees(xt.to_lxml(pa), xt.to_lxml(pb))
                    except Exception:  # noqa
                        pass
                    again = main.diff_trees(xt.to_lxml(nL), xt.to_lxml(nR))
                    if again != first:
                        fail("C06/result-depends-on-earlier-diffs-in-process", left_ns=ser(a), right_ns=ser(b))
                except Exception as e:  # noqa
                    pass
                # (d0) options of one call must not leak into later calls: an earlier diff that ignores a unique attribute,
                # then a default diff of siblings whose xml:id values are swapped (xml:id is unique by default: nodes with
                # different values are never paired, so no action may change an xml:id)
                XID = "{http://www.w3.org/XML/1998/namespace}id"
                sl = '<r><s xml:id="a">one one</s><s xml:id="b">two two</s></r>'
                sr = '<r><s xml:id="b">one one</s><s xml:id="a">two two</s></r>'
                try:
                    before = main.diff_texts(sl, sr)
                    shared = ["id"]
                    main.diff_texts(sl, sr, diff_options={"ignored_attrs": [XID]})
                    main.diff_texts('<r><s id="1"/></r>', '<r><s id="2"/></r>', diff_options={"uniqueattrs": shared, "ignored_attrs": ["id"]})
                    after = main.diff_texts(sl, sr)
                    if shared != ["id"]:
                        fail("C06/diff-modified-the-uniqueattrs-list-it-was-given", got=repr(shared))
                    if after != before:
                        fail("C06/result-depends-on-options-of-earlier-calls", before=repr(before)[:400], after=repr(after)[:400])
                    if any(type(a_).__name__ in ("UpdateAttrib", "InsertAttrib", "DeleteAttrib") and a_.name == XID for a_ in after):
                        fail("C06/default-unique-attribute-lost-after-earlier-call", script=repr(after)[:400])
                except Exception as e:  # noqa
                    fail(f"C06/options-history-raises/{real.exc_sig(e)}")
                # (d3) one XMLFormatter across pairs that bind one prefix to different URIs (declared on the left root or
                # introduced by the right root): the second output must be what a fresh formatter gives
                rz = core.rng_for(seed, "U12nsfmt2", idx)
                zp = rz.choice(["n", "p", "meta"])
                zu1, zu2 = "urn:verif:parts:v1", "urn:verif:parts:v2"

                def zpair(uri, on_left):
                    decl = ' xmlns:%s="%s"' % (zp, uri)
                    if on_left:
                        l_ = "<doc%s><%s:item>one</%s:item><%s:item>two</%s:item></doc>" % ((decl,) + (zp,) * 4)
                        r_ = "<doc%s><%s:item>one</%s:item><%s:item>two changed</%s:item><%s:item>three</%s:item></doc>" % ((decl,) + (zp,) * 6)
                    else:
                        l_ = "<doc><a>one</a></doc>"
                        r_ = "<doc%s><a>one</a><%s:item>two<%s:sub/></%s:item></doc>" % (decl, zp, zp, zp)
                    return l_, r_

                (zl1, zr1), (zl2, zr2) = zpair(zu1, rz.random() < 0.5), zpair(zu2, rz.random() < 0.5)
                for kw in ({}, {"pretty_print": False}, {"use_replace": True}):
                    try:
                        want_z = main.diff_texts(zl2, zr2, formatter=formatting.XMLFormatter(**kw))
                        fz = formatting.XMLFormatter(**kw)
                        main.diff_texts(zl1, zr1, formatter=fz)
                        got_z = main.diff_texts(zl2, zr2, formatter=fz)
                        if got_z != want_z:
                            fail("C06/formatter-with-history-differs/XMLFormatter/prefix-rebound", first_pair=[zl1, zr1], second_pair=[zl2, zr2], formatter_options=repr(kw))
                            break
                    except Exception as e:  # noqa
                        fail("C06/formatter-namespace-history-raises/" + real.exc_sig(e), first_pair=[zl1, zr1], second_pair=[zl2, zr2], formatter_options=repr(kw))
                        break
                # (d'') one Patcher across namespaced pairs that bind one prefix to different URIs: an earlier document (or an
                # earlier InsertNamespace) binds the prefix to one URI, the observed script binds it to another
                rq = core.rng_for(seed, "U12nspatch", idx)
                pre = rq.choice(["p", "q", "nsx"])
                u1, u2 = "urn:verif:one", "urn:verif:two"
                if rq.random() < 0.5:
                    phl = '<r xmlns:%s="%s"><%s:a>t</%s:a></r>' % (pre, u1, pre, pre)
                    phr = '<r xmlns:%s="%s"><%s:a>u</%s:a></r>' % (pre, u1, pre, pre)
                else:
                    phl = "<r><a>t</a></r>"
                    phr = '<r xmlns:%s="%s"><a>t</a><%s:b>u</%s:b></r>' % (pre, u1, pre, pre)
                pol = '<root xmlns:k="%s"><k:x>one</k:x></root>' % u1
                por = '<root xmlns:k="%s" xmlns:%s="%s"><k:x>one</k:x><%s:x>two</%s:x></root>' % (u1, pre, u2, pre, pre)
                try:
                    from lxml import etree as _et

                    # the history script is computed first: lxml's prefix registry is process-global, and which prefix a new
                    # element is serialised with depends on it; the comparison is on the namespace-aware tree (Clark names)
                    hscr = main.diff_trees(_et.fromstring(phl), _et.fromstring(phr))
                    oscr = main.diff_trees(_et.fromstring(pol), _et.fromstring(por))
                    want_t = xt.canon_tree(xt.from_lxml(main.patch_tree(oscr, _et.fromstring(pol))))
                    pp = patch.Patcher()
                    try:
                        pp.patch(hscr, _et.fromstring(phl))
                    except Exception:  # noqa
                        pass
                    got_e = pp.patch(oscr, _et.fromstring(pol))
                    if xt.canon_tree(xt.from_lxml(got_e)) != want_t:
                        fail("C06/patcher-with-history-differs/prefix-rebound", history_left=phl, history_right=phr, observed_left=pol,
                             observed_right=por, used=ser(got_e)[:300])
                except Exception as e:  # noqa
                    fail(f"C06/patcher-namespace-history-raises/{real.exc_sig(e)}", history_left=phl, history_right=phr)
                # (d') one XMLFormatter across namespaced pairs: an earlier script with InsertNamespace (the right root binds
                # a prefix the left one lacks), then a pair that uses that URI only below the root
                rr = core.rng_for(seed, "U12nsfmt", idx)
                pre, uri = rr.choice(["p", "q", "nsx"]), rr.choice(["urn:verif:one", "urn:verif:two"])
                hl = "<r><a>one</a></r>"
                hr = '<r xmlns:%s="%s"><a>one</a><%s:b>two</%s:b></r>' % (pre, uri, pre, pre)
                inner = rr.choice(['<x xmlns="%s">same</x>' % uri, '<z:x xmlns:z="%s">same</z:x>' % uri,
                                   '<w><x xmlns="%s">same<k/></x></w>' % uri])
                ol = "<r>%s<y>text one</y></r>" % inner
                orr = "<r>%s<y>text two</y><n/></r>" % inner
                for kw in ({}, {"pretty_print": False}, {"use_replace": True}):
                    try:
                        f = formatting.XMLFormatter(**kw)
                        main.diff_texts(hl, hr, formatter=f)
                        got = main.diff_texts(ol, orr, formatter=f)
                        want = main.diff_texts(ol, orr, formatter=formatting.XMLFormatter(**kw))
                        again = main.diff_texts(ol, orr, formatter=f)
                    except Exception as e:  # noqa
                        fail(f"C06/formatter-with-namespace-history-raises/{real.exc_sig(e)}", history=[hl, hr], observed=[ol, orr])
                        continue
                    if got != want or again != want:
                        fail("C06/formatter-with-history-differs/XMLFormatter/namespace-inserted-earlier",
                             history=[hl, hr], observed=[ol, orr], got=got[:600], want=want[:600])
        except Exception as e:  # noqa
            fail(f"C06/raises/{real.exc_sig(e)}")
    return st


CHILD = r"""
import sys, hashlib, json
sys.path.insert(0, %(harness)r)
import core
core.import_repo()
from props import c06
import xt
from xmldiff import main, formatting
out = []
for idx in range(%(n)d):
    L, R, opts, r = c06.gen_case(%(seed)d, idx)
    h = hashlib.sha256()
    for fmt in (None, formatting.DiffFormatter, formatting.XmlDiffFormatter):
        try:
            res = main.diff_trees(xt.to_lxml(L), xt.to_lxml(R), diff_options=opts, formatter=fmt() if fmt else None)
        except Exception as e:
            res = 'EXC ' + type(e).__name__
        h.update(repr(res).encode('utf-8', 'surrogatepass'))
    out.append(h.hexdigest()[:12])
print(' '.join(out))
"""


ORDER_CHILD = r"""
import sys, hashlib, json
sys.path.insert(0, %(harness)r)
import core
core.import_repo()
from props import c06
import xt
from xmldiff import main
calls = c06.order_calls(%(seed)d, %(n)d)
order = list(range(len(calls)))
if %(rev)d:
    order.reverse()
res = {}
for k in order:
    L, R, opts = calls[k]
    try:
        r = main.diff_trees(xt.to_lxml(L), xt.to_lxml(R), diff_options=dict(opts))
    except Exception as e:
        r = 'EXC ' + type(e).__name__
    res[k] = hashlib.sha256(repr(r).encode('utf-8', 'surrogatepass')).hexdigest()[:12]
print(' '.join(res[k] for k in range(len(calls))))
"""


def order_calls(seed, n):
    """The same document pairs under every matching mode x ratio mode: the calls one process makes in one order and
    another process in the reverse order."""
    calls = []
    for idx in range(n):
        L, R, opts, r = gen_case(seed + 31, idx)
        base = {k: v for k, v in opts.items() if k not in ("fast_match", "best_match", "ratio_mode")}
        for mm in ({}, {"best_match": True}, {"fast_match": True}):
            for rm in ("fast", "accurate", "faster"):
                calls.append((L, R, dict(base, ratio_mode=rm, **mm)))
    return calls


def order_digests(seed, n):
    procs = []
    for rev in (0, 1):
        code = ORDER_CHILD % {"harness": os.path.join(core.VERIF, "harness"), "n": n, "seed": seed, "rev": rev}
        procs.append(subprocess.Popen([sys.executable, "-c", code], stdout=subprocess.PIPE, stderr=subprocess.PIPE, text=True))
    outs = []
    for p in procs:
        o, e = p.communicate(timeout=1800)
        if p.returncode != 0:
            raise core.Infra("call-order child failed: " + e[-500:])
        outs.append(o.strip().split())
    return outs


def hashseed_digests(seed, n, seeds):
    out = {}
    procs = []
    for hs in seeds:
        env = dict(os.environ, PYTHONHASHSEED=str(hs))
        code = CHILD % {"harness": os.path.join(core.VERIF, "harness"), "n": n, "seed": seed}
        procs.append((hs, subprocess.Popen([sys.executable, "-c", code], stdout=subprocess.PIPE, stderr=subprocess.PIPE, text=True, env=env)))
    for hs, p in procs:
        o, e = p.communicate(timeout=1800)
        if p.returncode != 0:
            raise core.Infra("hash-seed child failed: " + e[-500:])
        out[hs] = o.strip()
    return out


def run(tier, seed, intensify=False):
    k = 1 if tier == "quick" else 15
    if intensify:
        k *= 3
    st = core.merge_all(core.pmap_chunks(_chunk, seed, 700 * k, (tier, "u12")))
    seeds = [0, 7] if tier == "quick" and not intensify else [0, 1, 7, 1234]
    n = 250 if tier == "quick" else 3000
    dig = hashseed_digests(seed, n, seeds)
    st.units["U12hashseed"] = len(seeds) * n
    st.evaluations += len(seeds) * n
    st.hist["hashseed_digests"] = len(set(dig.values()))
    if len(set(dig.values())) != 1:
        lists = {hs: v.split() for hs, v in dig.items()}
        ref = lists[seeds[0]]
        for idx in range(n):
            vals = {hs: (lists[hs][idx] if idx < len(lists[hs]) else None) for hs in seeds}
            if len(set(vals.values())) != 1:
                L, R, opts, _ = gen_case(seed, idx)
                st.failures.append({"sig": "C06/result-depends-on-PYTHONHASHSEED", "left": xt.to_xml(L), "right": xt.to_xml(R),
                                    "options": repr(opts), "digest_by_hash_seed": vals,
                                    "replay_hint": "diff_trees(left, right, options) in processes started with these PYTHONHASHSEED values"})
                break
    # the same calls in one order and in the reverse order, each in a fresh process: every call must give the same result
    # (no state may travel from one call to the next through module or class attributes)
    no = 12 if tier == "quick" else 150
    fwd, bwd = order_digests(seed, no)
    st.units["U12callorder"] = 2 * len(fwd)
    st.evaluations += 2 * len(fwd)
    if fwd != bwd:
        calls = order_calls(seed, no)
        for k, (a, b) in enumerate(zip(fwd, bwd)):
            if a != b:
                L, R, opts = calls[k]
                st.failures.append({"sig": "C06/result-depends-on-earlier-calls-in-the-process", "left": xt.to_xml(L), "right": xt.to_xml(R),
                                    "options": repr(opts), "call_index": k,
                                    "replay_hint": "props/c06.order_calls(seed, n): run the calls in order and in reverse order in two fresh processes"})
                break
    return st


def search(tier, seed):
    return run(tier, seed + 86028121, intensify=True)


def replay(path):
    print(json.dumps(json.load(open(path)), indent=1)[:3000])
    return 0
