"""C04 - decided by the differ cluster (see cluster.py and DESIGN.md section 6)."""
import sys

from props import _cluster

THEOREMS = ['XmlDiffModel.C04_getpath_unique', 'XmlDiffModel.C04_last_step_indexed', 'XmlDiffModel.C04_raw_path_unique', 'XmlDiffModel.C04_script_paths_unique']
PARTIAL = {}
LEAN_MODULES = ['XmlDiffModel.Props.C04', 'XmlDiffModel.Props.Replay']
SOURCES = ['utils.getpath', 'diff.Differ.diff', 'diff.Differ.align_children', 'patch.Patcher']
RULE = "Differ cluster: U1 compares utils.getpath of every node and lxml xpath hit lists (also for paths with dropped / shifted indices) with the model's getpath / count-based resolve; the oracle replays the real script action by action under the strict semantics (every path must select exactly one node, last step indexed). Non-trivial = script has >= 2 action types or a move."
ASSUMPTIONS = [
    "documents of the C01 domain; namespaced documents (stream nsm) are compared with the model too, the step name of a Clark-notation tag being the prefix the working copy uses for its URI; only the namespace prologue (InsertNamespace / DeleteNamespace, prefix registration) is outside the model and exercised by the oracle stream ns",
    "similarity values (difflib.SequenceMatcher, sqrt) are an oracle recorded from the real node_ratio for every comparable pair",
]
_cluster.make(sys.modules[__name__], 'C04', {'U1','U2','U5','E2E'}, [('main',3500),('wide',300),('ns',800),('nsm',600)], [('nsm',12000),('main',60000),('simple',20000),('wide',5000),('ns',20000)])
