"""C07 - decided by the differ cluster (see cluster.py and DESIGN.md section 6)."""
import sys

from props import _cluster

THEOREMS = ['XmlDiffModel.C07_left_inj', 'XmlDiffModel.C07_right_inj', 'XmlDiffModel.C07_roots', 'XmlDiffModel.C07_members', 'XmlDiffModel.C07_kind_and_unique', 'XmlDiffModel.C07_unique_single']
PARTIAL = {}
LEAN_MODULES = ["XmlDiffModel.Props.C07"] if THEOREMS else []
SOURCES = ['diff.Differ.match', 'diff.Differ.node_ratio', 'diff.Differ.child_ratio', 'diff.Differ.append_match']
RULE = 'Differ cluster: Differ.match() (similarity oracle recorded from the real node_ratio) vs. Match.matchNodes, match lists compared in order; oracle = the property read literally on the real match list (both projections injective, roots paired, members, kind, unique attributes). Non-trivial = script has >= 2 action types or a move; distinct by (L, R, options).'
ASSUMPTIONS = [
    "documents of the C01 domain; namespaced documents (stream nsm) are compared with the model too, the step name of a Clark-notation tag being the prefix the working copy uses for its URI; only the namespace prologue (InsertNamespace / DeleteNamespace, prefix registration) is outside the model and exercised by the oracle stream ns",
    "similarity values (difflib.SequenceMatcher, sqrt) are an oracle recorded from the real node_ratio for every comparable pair",
]
_cluster.make(sys.modules[__name__], 'C07', {'U4'}, [('main',3000),('ignored',1000),('nsm',500)], [('nsm',10000),('main',60000),('ignored',20000),('equal',10000)])
