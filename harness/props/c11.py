"""C11 - placeholder substitution is lossless and one-to-one."""
import copy
import json

from lxml import etree

import core
import gen
import real
import xt
from xt import PNode

THEOREMS = ["XmlDiffModel.C11_table_injective", "XmlDiffModel.C11_table_stable", "XmlDiffModel.C11_fresh_placeholder",
            "XmlDiffModel.C11_roundtrip_element", "XmlDiffModel.C11_roundtrip_element_fresh_maker",
            "XmlDiffModel.C11_roundtrip_tree", "XmlDiffModel.C11_do_tree_keeps_invariants", "XmlDiffModel.C11_roundtrip_tree_fresh_maker", "XmlDiffModel.C11_prepare_then_finalize"]
PARTIAL = {
    "C11_nested_text_tags": "proved: the round trip of a whole document - undo_element on the root of what do_tree returned (what undo_tree "
    "calls) has the normal form of the document (restored inline elements are copies, an empty text or tail is not told from a missing "
    "one) - on the fresh maker and on every maker state satisfying the table / heap invariants, which do_tree preserves, hence for a "
    "maker that has already processed other documents; any nesting of formatting and single elements inside the text elements "
    "(C11_roundtrip_tree, C11_do_tree_keeps_invariants, C11_roundtrip_tree_fresh_maker, C11_roundtrip_element; texts without "
    "characters from U+E000 on, node identities new to the maker); and for every history of get_placeholder calls on one maker: the "
    "table is injective in both directions, entries are never changed or removed, equal keys get equal placeholders, a new "
    "placeholder is fresh. NOT proved: documents in which a text tag lies inside a text tag (the inner one is substituted while "
    "detached, through the heap); decided per run by the round-trip oracle on the real maker and by unit U7 (model vs. code on "
    "do_tree / table / undo_tree).",
}
LEAN_MODULES = ["XmlDiffModel.Props.C11"]
SOURCES = ["formatting.PlaceholderMaker"]
RULE = (
    "U7: PlaceholderMaker(text_tags, formatting_tags).do_tree on one or two mixed-content documents (nested / empty / adjacent / "
    "attributed formatting elements, nested text tags, comments inside text tags) for random subsets of the tag names as text and "
    "formatting tags, half of them on a maker that has already processed another document, and half of those histories undoing each "
    "document before the next is substituted: trees after do_tree, the placeholder "
    "table (code point, role, close placeholder, key) and the trees after undo_tree compared with Placeholder.doTree / undoTree. "
    "Oracle on the real maker: undo_tree(do_tree(t)) equals t (None == ''), placeholder -> entry and key -> placeholder are "
    "injective, an element identical in two documents gets the same placeholder. Non-trivial = at least one formatting element "
    "nested in another placeholder element; distinct by (documents, tag sets)."
)
ASSUMPTIONS = ["documents without private-use characters; fewer than 6400 placeholders; namespace-free tags in the model"]

TAGS = ["p", "b", "i", "a", "s"]
WORDS = ["hello", "world", "there", "x", "lorem ipsum", " ", "a b", "", "\ufb01n", "ok \U0001F600", "\ufffd"]


def mixed_tree(r, max_nodes=12):
    root = PNode("e", r.choice(["doc", "p", "div"]), [], r.choice([None, "intro "]), None)
    elems = [root]
    for _ in range(r.randint(0, max_nodes)):
        parent = r.choice(elems)
        if r.random() < 0.08:
            n = PNode("c", "", [], r.choice(["c", "note"]), r.choice([None, " t"]))
        else:
            n = PNode("e", r.choice(TAGS), [("k", r.choice(["1", "2"]))] if r.random() < 0.2 else [], r.choice([None, None] + WORDS[:5] + WORDS[8:]), r.choice([None] + WORDS))
            if n.text == "":
                n.text = None
            if n.tail == "":
                n.tail = None
            elems.append(n)
        parent.kids.insert(r.randint(0, len(parent.kids)), n)
    if r.random() < 0.3 and len(elems) > 2:
        # repeat an inline element so that identical elements occur
        src = r.choice(elems[1:])
        if src.size() <= 3:
            dst = r.choice(elems)
            inside = set(id(x) for x in src.iter())
            if id(dst) not in inside:
                dst.kids.append(src.copy())
    return root


def tagsets(r):
    names = r.sample(TAGS + ["doc", "div"], r.randint(0, 4))
    text = tuple(n for n in names if r.random() < 0.6)
    fmt = tuple(n for n in TAGS if r.random() < 0.4)
    return text, fmt


def real_table(maker):
    rows = []
    for (tag, ttype, close), ph in maker.tag2placeholder.items():
        rows.append((ord(ph), ttype, ord(close) if close else None, tag))
    rows.sort()
    return rows


def _chunk(seed, lo, hi, extra):
    from xmldiff import formatting

    tier, mode = extra
    st = core.Stats()
    reqs, pend = [], []
    for idx in range(lo, hi):
        r = core.rng_for(seed, "U7", idx)
        text, fmt = tagsets(r)
        docs = [mixed_tree(r, 10 if tier == "quick" else 20)]
        if r.random() < 0.5:
            docs.append(gen.mutate(r, docs[0], steps=r.randint(0, 2)) if r.random() < 0.6 else mixed_tree(r, 8))
        base = 0
        for d in docs:
            d.number(base)
            base += 1000
        st.evaluations += 1
        st.units["U7"] = st.units.get("U7", 0) + 1
        desc = {"documents": [xt.to_xml(d) for d in docs], "text_tags": text, "formatting_tags": fmt}
        maker = formatting.PlaceholderMaker(text_tags=text, formatting_tags=fmt)
        els = [xt.to_lxml(d) for d in docs]
        # half of the histories undo each document before the next one is substituted (do, undo, do, undo on one maker);
        # the model's table only grows, so its undo with the final table is the same function on the earlier documents
        interleave = r.random() < 0.5
        desc["history"] = "do,undo,do,undo" if interleave else "do,do,undo,undo"
        try:
            undone = []
            for e in els:
                maker.do_tree(e)
                if interleave:
                    c = copy.deepcopy(e)
                    maker.undo_tree(c)
                    undone.append(xt.from_lxml(c))
            done = [xt.from_lxml(e) for e in els]
            table = real_table(maker)
            if not interleave:
                for e in els:
                    c = copy.deepcopy(e)
                    maker.undo_tree(c)
                    undone.append(xt.from_lxml(c))
        except Exception as e:  # noqa
            st.failures.append({"sig": f"C11/raises/{real.exc_sig(e)}", **desc})
            continue
        # oracle on the real maker
        for d, u in zip(docs, undone):
            dd = xt.doc_eq(u, d)
            if dd:
                st.failures.append({"sig": "C11/undo-do-differs-from-original", "detail": dd, **desc})
        phs = [row[0] for row in table]
        if len(set(phs)) != len(phs):
            st.failures.append({"sig": "C11/two-keys-share-a-placeholder", **desc})
        if len(maker.placeholder2tag) != len(maker.tag2placeholder):
            st.failures.append({"sig": "C11/tables-out-of-step", **desc})
        # every text tag is substituted: a text-tag element that is still in the tree has no element child left, so an
        # inline element identical in two documents is compared as the same placeholder text
        for dn in done:
            left = [n for n in dn.iter() if n.kind == "e" and n.tag in text and any(k.kind == "e" for k in n.kids)]
            if left:
                st.failures.append({"sig": "C11/text-tag-element-keeps-element-children", "element": xt.to_xml(left[0])[:300], **desc})
                break
        # third clause: the same inline element followed by different texts (in two documents, or twice in one) gets the
        # same placeholder - a fresh maker, a text element <T>lead<child/>tail</T> with two different tails
        if text:
            cand = [k for d in docs for n in d.iter() if n.kind == "e" and n.tag in text for k in n.kids if k.kind == "e" and k.tag not in text]
            if cand:
                k0 = cand[0].copy()
                k0.tail = None
                PN = xt.PNode

                def one(tail):
                    kk = k0.copy()
                    kk.tail = tail
                    return PN("e", "zroot", [], None, None, [PN("e", text[0], [], "lead ", None, [kk])]).number(0)

                try:
                    mk2 = formatting.PlaceholderMaker(text_tags=text, formatting_tags=fmt)
                    e1, e2 = xt.to_lxml(one(" first tail")), xt.to_lxml(one(None))
                    mk2.do_tree(e1)
                    mk2.do_tree(e2)
                    t1, t2 = (e1[0].text or ""), (e2[0].text or "")
                    if len(t1) > 5 and len(t2) > 5 and t1[5] != t2[5]:
                        st.failures.append({"sig": "C11/identical-element-different-placeholder/following-text-differs",
                                            "element": xt.to_xml(k0)[:200], "first": repr(t1[:12]), "second": repr(t2[:12]), **desc})
                except Exception as e:  # noqa
                    st.failures.append({"sig": f"C11/raises/{real.exc_sig(e)}/following-text", **desc})
        nested = any(n.kind == "e" and n.tag in fmt and any(k.kind == "e" for k in n.kids) for d in docs for n in d.iter()) and bool(text)
        if nested:
            st.nontriv((tuple(desc["documents"]), text, fmt))
            st.sample(desc, 2)
        reqs.append("ph\t" + "|".join(xt.enc_str(t) for t in text) + "\t" + "|".join(xt.enc_str(t) for t in fmt) + "\t" + "\t".join(xt.enc_tree(d) for d in docs))
        pend.append((done, table, undone, desc))
    resp = core.run_driver(reqs)
    for (done, table, undone, desc), mo in zip(pend, resp):
        if not mo.startswith("ok "):
            st.disagreements.append({"unit": "U7", "what": "driver", "model": mo[:200], **desc})
            continue
        m_done, m_table, m_keys, m_undone = [x.strip() for x in mo[3:].split(" ; ")]
        md = [xt.canon_tree(xt.dec_tree(t)) for t in m_done.split(" # ")] if m_done else []
        if md != [xt.canon_tree(t) for t in done]:
            st.disagreements.append({"unit": "U7", "what": "do_tree", "real": [xt.to_xml(t) for t in done], "model": [xt.to_xml(xt.dec_tree(t)) for t in m_done.split(" # ")], **desc})
            continue
        want_table = " ".join(f"{ph}:{tt}:{'n' if c is None else c}" for ph, tt, c, _ in table)
        if m_table != want_table:
            st.disagreements.append({"unit": "U7", "what": "table", "real": want_table, "model": m_table, **desc})
            continue
        # keys (serialisations) of the document entries
        mk = m_keys.split(" # ") if m_keys else []
        for (ph, tt, c, tag), kt in list(zip(table, mk))[6:]:
            ktree = xt.dec_tree(kt)
            if xt.to_xml(ktree) != tag:
                st.disagreements.append({"unit": "U7", "what": "key", "placeholder": ph, "real": tag, "model": xt.to_xml(ktree), **desc})
                break
        mu = m_undone.split(" # ") if m_undone else []
        for t, m in zip(undone, mu):
            if m.startswith("err:") or xt.doc_eq(xt.dec_tree(m), t, none_eq_empty=False) is not None:
                st.disagreements.append({"unit": "U7", "what": "undo_tree", "real": xt.to_xml(t), "model": m[:300] if m.startswith("err:") else xt.to_xml(xt.dec_tree(m)), **desc})
                break
    return st


NSU = {"x": ["urn:one", "urn:two"], "y": ["urn:why"], None: ["urn:dflt", "urn:other"]}


def _ns_chunk(seed, lo, hi, extra):
    """Oracle-only stream (the model has no namespaces): documents with namespaced inline elements and roots that declare
    further, unused namespaces.  One maker processes (a) the same document under two different sets of unused root
    declarations - every element is identical, so both must come out as the same placeholder strings - and (b) the same
    document with one prefix bound to another URI - elements that differ only in the namespace must get different placeholders;
    every document must survive do_tree / undo_tree."""
    from xmldiff import formatting

    tier, _ = extra
    st = core.Stats()
    for idx in range(lo, hi):
        r = core.rng_for(seed, "U7ns", idx)
        text, fmt = tagsets(r)
        if not text:
            text = ("p",)
        base = mixed_tree(r, 8)
        # choose a prefix per inline tag once, so that the copies differ only in what the prefixes are bound to
        # text tags are selected by an XPath of plain names, so text-tag elements stay outside any namespace
        pre_of = {tag: ("-" if tag in text else r.choice(["x", "y", "-"])) for tag in TAGS}

        def build(bind, extra_decl):
            t = base.copy()
            for n in t.iter():
                if n.kind == "e" and n is not t and pre_of.get(n.tag, "-") != "-":
                    n.tag = "{%s}%s" % (bind[pre_of[n.tag]], n.tag)
            el = xt.to_lxml(t, nsmap={k: v for k, v in {**{p: bind[p] for p in bind}, **extra_decl}.items()})
            return el

        bind1 = {"x": "urn:one", "y": "urn:why"}
        bind2 = dict(bind1)
        which = "x"
        bind2[which] = NSU[which][1]
        ttext = tuple(text)
        tfmt = tuple(fmt) + tuple("{%s}%s" % (u, t) for t in fmt for u in ("urn:one", "urn:two", "urn:why"))
        try:
            a = build(bind1, {})
            b = build(bind1, {"u1": "urn:unused:1", "u2": "urn:unused:2"})
            c = build(bind2, {})
        except Exception:  # noqa
            continue
        desc = {"documents": [etree.tostring(e, encoding="unicode") for e in (a, b, c)], "text_tags": ttext[:4], "formatting_tags": tfmt[:4]}
        st.evaluations += 1
        st.units["U7ns"] = st.units.get("U7ns", 0) + 1
        maker = formatting.PlaceholderMaker(text_tags=ttext, formatting_tags=tfmt)
        orig = [copy.deepcopy(e) for e in (a, b, c)]
        try:
            for e in (a, b, c):
                maker.do_tree(e)
            texts = [[(n.text, n.tail) for n in e.iter()] for e in (a, b, c)]
            und = []
            for e in (a, b, c):
                cc = copy.deepcopy(e)
                maker.undo_tree(cc)
                und.append(cc)
        except Exception as e:  # noqa
            st.failures.append({"sig": f"C11/raises/{real.exc_sig(e)}", **desc})
            continue
        if texts[0] != texts[1]:
            st.failures.append({"sig": "C11/identical-element-different-placeholder/unused-namespace-declaration", **desc})
        for o, u in zip(orig, und):
            if etree.tostring(o, method="c14n") != etree.tostring(u, method="c14n"):
                # None vs "" is not visible in c14n; tails / texts are
                st.failures.append({"sig": "C11/undo-do-differs-from-original/namespaced", **desc})
                break
        used = any(n.kind == "e" and n is not base and pre_of.get(n.tag) == which for n in base.iter())
        if used:
            st.nontriv(tuple(desc["documents"]))
            st.sample(desc, 1)
    return st


def run(tier, seed, intensify=False):
    k = 1 if tier == "quick" else 20
    if intensify:
        k *= 3
    parts = core.pmap_chunks(_chunk, seed, 2500 * k, (tier, "u7"))
    parts += core.pmap_chunks(_ns_chunk, seed, 800 * k, (tier, "ns"))
    return core.merge_all(parts)


def search(tier, seed):
    return run(tier, seed + 97, intensify=True)


def replay(path):
    print(json.dumps(json.load(open(path)), indent=1)[:3000])
    return 0
