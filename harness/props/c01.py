"""C01 - decided by the differ cluster (see cluster.py and DESIGN.md section 6)."""
import sys

from props import _cluster

THEOREMS = ['XmlDiffModel.C01_roundtrip', 'XmlDiffModel.C01_differ_completes', 'XmlDiffModel.C01_diff_then_patch', 'XmlDiffModel.C01_script_reaches_right', 'XmlDiffModel.C01_patch_reproduces_working_copy', 'XmlDiffModel.C01_final_wf', 'XmlDiffModel.C05_strict_refines_to_shipped']
PARTIAL = {'C01_namespaces': 'proved for the whole model pipeline (match, script generation, shipped patcher), documents of any size, every similarity oracle and option set with F > 0: the differ completes without raising (C01_differ_completes), the patcher accepts the script, and the result equals the right document in tags, texts, tails, comments, child order and every non-ignored attribute, attribute order aside (C01_roundtrip; for every one-to-one, root-pairing, kind-respecting matching: C01_script_reaches_right). NOT proved: namespaced documents (prefix registration, InsertNamespace) are outside the model and decided per run by the oracle stream; the tie between model and code is the correspondence, not a proof.'}
LEAN_MODULES = ['XmlDiffModel.Props.C01', 'XmlDiffModel.Props.Replay', 'XmlDiffModel.Props.C05']
SOURCES = ['diff.Differ.match', 'diff.Differ.diff', 'diff.Differ.node_ratio', 'diff.Differ.find_pos', 'diff.Differ.align_children', 'diff.Differ.update_node_attr', 'diff.Differ.update_node_text', 'diff.Differ.update_node_tag', 'patch.Patcher', 'utils.getpath', 'utils.longest_common_subsequence']
RULE = "Differ cluster: seeded random document pairs (60% mutation chains of the left document, 40% independent, a duplicate-heavy stream) x random diff options (F, ratio_mode, fast/best match, uniqueattrs); each case: real Differ.match/diff and Patcher vs. the Lean model (U1 getpath/xpath, U2 patcher, U4 matching, U5 script generation, end-to-end), then the round-trip oracle patch_tree(diff_trees(L,R),L) == R under the property's equality. Non-trivial = script has >= 2 action types or a move; distinct by (L, R, options)."
ASSUMPTIONS = [
    "documents of the namespace-free C01 domain (elements, attributes, text, tails, comments); namespaced documents are exercised by the oracle streams only",
    "similarity values (difflib.SequenceMatcher, sqrt) are an oracle recorded from the real node_ratio for every comparable pair",
]
_cluster.make(sys.modules[__name__], 'C01', {'U1','U2','U4','U5','E2E'}, [('main',3000),('simple',1000),('wide',300),('ns',800)], [('main',60000),('simple',20000),('equal',5000),('wide',5000),('ns',20000)])
