"""Factory for the properties decided by the differ cluster (C01 C03 C04 C05 C07 C13 C17)."""
import json

import core
import cluster


def make(mod, pid, units, streams_quick, streams_thorough, search_streams=None):
    """Install run/search/replay into module `mod`."""

    def _collect(tier, seed, streams, scale=1):
        parts = []
        n = len(cluster.corpus())
        if n:
            parts += core.pmap_chunks(cluster.run_cases, seed, n, (tier, "corpus"), jobs=1)
        for stream, count in streams:
            fn = cluster.run_ns_cases if stream == "ns" else cluster.run_file_cases if stream == "files" else cluster.run_cases
            parts += core.pmap_chunks(fn, seed, int(count * scale), (tier, stream))
        st = core.merge_all(parts)
        st.disagreements = [d for d in st.disagreements if d["unit"] in units]
        st.failures = [f for f in st.failures if f["prop"] == pid]
        st.units = {k: v for k, v in st.units.items() if k in units or k == 'files'}
        return st

    def run(tier, seed, intensify=False):
        streams = streams_quick if tier == "quick" else streams_thorough
        return _collect(tier, seed, streams)

    def search(tier, seed):
        streams = search_streams or [(s, c) for s, c in (streams_quick if tier == "quick" else streams_thorough)]
        return _collect("thorough", seed + 104729, streams, scale=3)

    def replay(path):
        d = json.load(open(path))
        core.import_repo()
        print(json.dumps({k: d[k] for k in d if k in ("sig", "left", "right", "options", "script", "detail", "kind", "proof_problems")}, indent=1)[:3000])
        if "left" not in d:
            return 0
        import ast
        from lxml import etree
        import xt

        opts = ast.literal_eval(d["options"])
        L = xt.from_lxml(etree.fromstring(d["left"]), 0)
        R = xt.from_lxml(etree.fromstring(d["right"]), 1000)
        cluster._CORPUS = [{"left": d["left"], "right": d["right"], "options": opts}]
        st = cluster.run_cases(0, 0, 1, ("quick", "corpus"))
        fails = [f for f in st.failures if f["prop"] == pid]
        for f in fails:
            print("FAILS:", f["sig"], f.get("detail"))
        return 1 if fails else 0

    mod.run = run
    mod.search = search
    mod.replay = replay
