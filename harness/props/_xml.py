"""Shared runner of the XML-formatter properties C08 C09 C10 (oracles on the real formatter;
the correspondence units are added by the property modules)."""
import json

from lxml import etree

import core
import real
import xmlfmt
import xt
from props import c02


def flatten_text_tags(p, text_tags):
    q = p.copy()

    def itertext(n):
        out = [n.text or ""]
        for c in n.kids:
            if c.kind == "e":
                out.append(itertext(c))
            else:
                # a comment that survived inside a text tag (both documents are compared with their comments removed, so
                # only an output can have one): it stays visible in the flattened content
                out.append("<!--%s-->" % (c.text or ""))
            out.append(c.tail or "")
        return "".join(out)

    def go(n):
        if n.kind == "e" and n.tag in text_tags:
            n.text = itertext(n) or None
            n.kids = []
        else:
            for c in n.kids:
                go(c)

    go(q)
    return q


def prep(p, cfg):
    if cfg.get("text_tags"):
        p = flatten_text_tags(p, cfg["text_tags"])
    if cfg["normalize"] & 2:
        p = xmlfmt.norm_ws(p)
    if cfg["pretty_print"]:
        p = xmlfmt.squeeze_ws(p)
    if cfg["pretty_print"] or cfg["normalize"] & 2:
        p = xmlfmt.drop_blank(p)
    return p


def valid_case(seed, idx, tier):
    k = 0
    while True:
        L, R, cfg, opts = xmlfmt.case_for(seed, idx * 1000 + k, tier)
        if c02.reparses(xt.to_xml(L), L) and c02.reparses(xt.to_xml(R), R):
            return L, R, cfg, opts
        k += 1


def text_pair_strings(tier):
    import itertools

    n = 4 if tier == "quick" else 6
    return ["".join(t) for k in range(1, n + 1) for t in itertools.product("ab", repeat=k)]


def text_pair_case(strs, idx):
    """Exhaustive stream: one text (or tail) update `a -> b` for every pair of strings over {a, b} up to a length bound; the
    formatter alternates over use_replace and text / tail position with the index."""
    a, b = strs[idx // len(strs)], strs[idx % len(strs)]
    PN = xt.PNode
    if idx % 2:
        L = PN("e", "doc", [], None, None, [PN("e", "p", [], a, None)])
        R = PN("e", "doc", [], None, None, [PN("e", "p", [], b, None)])
    else:
        L = PN("e", "doc", [], None, None, [PN("e", "p", [], "x", a)])
        R = PN("e", "doc", [], None, None, [PN("e", "p", [], "x", b)])
    cfg = {"normalize": 0, "pretty_print": False, "use_replace": (idx // 2) % 2 == 1}
    return L.number(0), R.number(1000), cfg, {}


def run_cases(seed, lo, hi, extra):
    tier, mode = extra
    st = core.Stats()
    strs = text_pair_strings(tier) if mode == "textpairs" else None
    for idx in range(lo, hi):
        if mode == "textpairs":
            L, R, cfg, opts = text_pair_case(strs, idx)
            st.units["text-pairs"] = st.units.get("text-pairs", 0) + 1
        else:
            L, R, cfg, opts = valid_case(seed, idx, tier)
        st.evaluations += 1
        cs = xmlfmt.cfg_sig(cfg)
        st.count("cfg_" + cs)
        desc = {"left": xt.to_xml(L), "right": xt.to_xml(R), "formatter": repr(cfg), "options": repr(opts)}
        kind, out = xmlfmt.run_real(L, R, cfg, opts)
        if kind == "exc":
            st.failures.append({"prop": "C08", "sig": f"C08/raises/{out}/{cs}", **desc})
            continue
        probs = xmlfmt.check_c08(out)
        for sig, det in probs[:1]:
            st.failures.append({"prop": "C08", "sig": f"{sig}/{cs}", "detail": det, "output": out[:600], **desc})
        if probs:
            # the accept / reject oracles still apply to an output that parses
            try:
                etree.fromstring(out.encode("utf-8"))
            except Exception:  # noqa
                continue
        if mode != "textpairs" and idx % 5 == 1:
            # C08 is about every pair of trees the formatter can be given: two elements inside larger documents, followed
            # by different white space (their tails differ), must give well-formed markup too
            from xmldiff import main as _main2, formatting as _formatting2
            st.units["trees-inside-larger-documents"] = st.units.get("trees-inside-larger-documents", 0) + 1
            hl_, hr_ = etree.Element("holder"), etree.Element("holder")
            el_, er_ = xt.to_lxml(L), xt.to_lxml(R)
            hl_.append(el_)
            hr_.append(er_)
            el_.tail, er_.tail = "\n  ", "\n"
            hl_.append(etree.Element("after"))
            try:
                oe_ = _main2.diff_trees(el_, er_, diff_options=opts, formatter=_formatting2.XMLFormatter(**cfg))
                try:
                    etree.fromstring(oe_.encode("utf-8"))
                except Exception as e:  # noqa
                    st.failures.append({"prop": "C08", "sig": f"C08/output-not-well-formed/{cs}/trees-inside-larger-documents", "detail": str(e)[:200], "output": oe_[:600], **desc})
            except Exception as e:  # noqa
                if not probs:
                    st.failures.append({"prop": "C08", "sig": f"C08/raises/{real.exc_sig(e)}/{cs}/trees-inside-larger-documents", **desc})
        if mode != "textpairs" and idx % 3 == 0 and not cfg.get("use_replace"):
            # C08 quantifies over formatter configurations, not over fresh objects: the same formatter used for a
            # second diff (which meets the placeholder keys of the first one again) must still return clean markup
            from xmldiff import main as _main, formatting as _formatting
            st.units["formatter-reused"] = st.units.get("formatter-reused", 0) + 1
            f2 = _formatting.XMLFormatter(**cfg)
            try:
                _main.diff_trees(xt.to_lxml(L), xt.to_lxml(R), diff_options=opts, formatter=f2)
                out2 = _main.diff_trees(xt.to_lxml(L), xt.to_lxml(R), diff_options=opts, formatter=f2)
                for sig, det in xmlfmt.check_c08(out2)[:1]:
                    st.failures.append({"prop": "C08", "sig": f"{sig}/{cs}/formatter-reused", "detail": det, "output": out2[:600], **desc})
            except Exception as e:  # noqa
                st.failures.append({"prop": "C08", "sig": f"C08/raises/{real.exc_sig(e)}/{cs}/formatter-reused", **desc})
        if "diff:" in out:
            st.nontriv((desc["left"], desc["right"], desc["formatter"]))
            st.sample({**desc, "output": out[:400]}, 2)
        if cfg.get("use_replace") and cfg.get("text_tags"):
            continue  # outside the quantifier of C09 / C10
        outp = xt.from_lxml(etree.fromstring(out.encode("utf-8")))
        # ---- C09
        Rs, Rl = xmlfmt.strip_comments(R), xmlfmt.strip_comments_lossy(R)
        tt = cfg.get("text_tags", ())
        variants = [
            (None, xmlfmt.accept(outp, False, tt), Rs),
            ("explained-by-X1-text-after-comment", xmlfmt.accept(outp, False, tt), Rl),
            ("explained-by-X2-tail-of-deleted-node", xmlfmt.accept(outp, True, tt), Rs),
            ("explained-by-X1+X2", xmlfmt.accept(outp, True, tt), Rl),
        ]
        for label, a, r in variants:
            d = xt.doc_eq(prep(a, cfg), prep(r, cfg))
            if d is None:
                if label:
                    st.failures.append({"prop": "C09", "sig": f"C09/accept-differs/{label}", "output": out[:600], **desc})
                break
        else:
            st.failures.append({"prop": "C09", "sig": f"C09/accept-differs/{cs}", "detail": d, "output": out[:600], **desc})
        # ---- C10
        Ls, Ll = xmlfmt.strip_comments(L), xmlfmt.strip_comments_lossy(L)
        rj = xmlfmt.reject(outp, cfg.get("text_tags", ()))
        for label, l in ((None, Ls), ("explained-by-X1-text-after-comment", Ll)):
            d = xmlfmt.doc_eq_reject(prep(rj, cfg), prep(l, cfg))
            if d is None:
                if label:
                    st.failures.append({"prop": "C10", "sig": f"C10/reject-differs/{label}", "output": out[:600], **desc})
                break
        else:
            st.failures.append({"prop": "C10", "sig": f"C10/reject-differs/{cs}", "detail": d, "output": out[:600], **desc})
        if d is None and cfg["pretty_print"] and not cfg.get("text_tags") and not cfg["normalize"] & 2:
            # under pretty_print the comparison above is modulo all white space; white space inside mixed content is not
            # the pretty printer's to change
            lost = xmlfmt.blank_lost(rj, l)
            if lost:
                st.failures.append({"prop": "C10", "sig": f"C10/reject-loses-white-space-in-mixed-content/{cs}", "detail": lost, "output": out[:600], **desc})
    return st


def make(mod, pid, count_quick=1500, count_thorough=30000):
    def run(tier, seed, intensify=False):
        n = count_quick if tier == "quick" else count_thorough
        if intensify:
            n *= 3
        st = core.merge_all(core.pmap_chunks(run_cases, seed, n, (tier, "xml")))
        st.merge(core.merge_all(core.pmap_chunks(run_cases, seed, len(text_pair_strings(tier)) ** 2, (tier, "textpairs"))))
        st.hist["text_pair_stream_exhaustive_over_ab_up_to"] = 4 if tier == "quick" else 6
        st.failures = [f for f in st.failures if f["prop"] == pid]
        extra = getattr(mod, "extra_units", None)
        if extra:
            st.merge(extra(tier, seed, intensify))
        return st

    def search(tier, seed):
        return run(tier, seed + 7368787, intensify=True)

    def replay(path):
        print(json.dumps(json.load(open(path)), indent=1)[:3000])
        return 0

    mod.run, mod.search, mod.replay = run, search, replay


# ---------------------------------------------------------------------------
# U9: XMLFormatter.format (tree before render) vs. XmlFormat.formatTree


def enc_segs(seglists):
    out = []
    for d in seglists:
        out.append(",".join({-1: "d", 1: "i", 0: "e"}[op] + ":" + xt.enc_str(t) for op, t in d))
    return "".join("|" + x for x in out)


class _FrozenTime:
    @staticmethod
    def time():
        return 0.0


def real_format_tree(L, R, cfg, opts, table=None):
    """Runs diff_trees with an XMLFormatter instrumented from outside: returns
    (script, segment lists, captured tree or exception signature).  With `table` (a dict) the engine the formatter
    constructs is a recording subclass (clock frozen): table[(t1, t2)] = split point of diff_bisect or None."""
    from xmldiff import main, formatting
    import real

    if table is not None:
        from xmldiff import diff_match_patch as dmpmod

        class Rec(dmpmod.diff_match_patch):
            def diff_bisect(self, t1, t2, deadline):
                table.setdefault((t1, t2), None)
                return super().diff_bisect(t1, t2, deadline)

            def diff_bisectSplit(self, t1, t2, x, y, deadline):
                table[(t1, t2)] = (x, y)
                return super().diff_bisectSplit(t1, t2, x, y, deadline)

        saved = (formatting.diff_match_patch, dmpmod.time)
        formatting.diff_match_patch, dmpmod.time = Rec, _FrozenTime
        try:
            return real_format_tree(L, R, cfg, opts)
        finally:
            formatting.diff_match_patch, dmpmod.time = saved

    f = formatting.XMLFormatter(**cfg)
    seglists, captured, scripts = [], [], []
    orig_realign = f._realign_placeholders

    def realign(diff):
        seglists.append([(op, t) for op, t in diff])
        return orig_realign(diff)

    f._realign_placeholders = realign
    f.render = lambda result: captured.append(result) or ""
    orig_format = f.format

    def fmt(diff, orig_tree):
        acts = list(diff)
        scripts.append(acts)
        return orig_format(acts, orig_tree)

    f.format = fmt
    try:
        main.diff_trees(xt.to_lxml(L), xt.to_lxml(R), diff_options=opts, formatter=f)
        tree = captured[0]
        root = tree.getroot() if hasattr(tree, "getroot") else tree
        return scripts[0], seglists, ("ok", xt.from_lxml(root))
    except Exception as e:  # noqa
        return (scripts[0] if scripts else None), seglists, ("exc", real.exc_sig(e))


EXC_MAP = {
    "IndexError@undo_string": "undo:popEmpty",
    "AssertionError@_realign_placeholders": "assertFail",
}


def u9_cases(seed, lo, hi, extra):
    tier, _ = extra
    st = core.Stats()
    reqs, pend = [], []
    for idx in range(lo, hi):
        L, R, cfg, opts = valid_case(seed + 3, idx, tier)
        table = {}
        script, seglists, res = real_format_tree(L, R, cfg, opts, table)
        st.evaluations += 1
        st.units["U9"] = st.units.get("U9", 0) + 1
        if script is None:
            continue
        if any(type(a).__name__ in ("InsertNamespace", "DeleteNamespace") for a in script):
            continue
        desc = {"left": xt.to_xml(L), "right": xt.to_xml(R), "formatter": repr(cfg), "options": repr(opts), "script": xt.show_script(script)[:30]}
        tt = "|".join(xt.enc_str(t) for t in cfg.get("text_tags", ()))
        ft = "|".join(xt.enc_str(t) for t in cfg.get("formatting_tags", ()))
        reqs.append("\t".join(["xmlfmt", tt, ft, "1" if cfg.get("use_replace") else "0", xt.enc_tree(L), xt.enc_tree(R), xt.enc_script(script), enc_segs(seglists)]))
        pend.append(("U9", res, desc))
        # U9e: the same case with the engine model inside the formatter model (Acc.formatTreeE)
        tbl = " ".join(f"{xt.enc_str(k[0])}:{xt.enc_str(k[1])}:" + (f"{v[0]}:{v[1]}" if v else "n:n") for k, v in table.items())
        reqs.append("\t".join(["xmlfmte", tt, ft, "1" if cfg.get("use_replace") else "0", "1" if cfg["normalize"] & 2 else "0", xt.enc_tree(L), xt.enc_tree(R), xt.enc_script(script), tbl]))
        pend.append(("U9e", res, desc))
        st.units["U9e"] = st.units.get("U9e", 0) + 1
        if seglists:
            st.hist["u9e_cases_with_engine_calls"] = st.hist.get("u9e_cases_with_engine_calls", 0) + 1
        if table:
            st.hist["u9e_cases_with_bisect"] = st.hist.get("u9e_cases_with_bisect", 0) + 1
        # U9p: the projections of the theorems (Fin.accFT / Fin.rejFT) against the projections of the per-run oracle, on
        # the real output tree (formatter without text tags and without use_replace)
        if res[0] == "ok" and not cfg.get("text_tags") and not cfg.get("formatting_tags") and not cfg.get("use_replace"):
            reqs.append("proj\t" + xt.enc_tree(res[1]))
            pend.append(("U9p", res, desc))
            st.units["U9p"] = st.units.get("U9p", 0) + 1
    # U9w: utils.cleanup_whitespace(x).strip() vs. Acc.wsNorm (what _make_diff_tags does to both values under WS_TEXT)
    import random
    from xmldiff import utils
    r = random.Random(seed * 7919 + lo)
    spaces = [chr(c) for c in range(0x3100) if chr(c).isspace()] + ["\u200b", "\u180e", "\ufeff", "\u2060", "\x1b", "\x08"]
    for k in range(max(4, (hi - lo) // 10)):
        if lo == 0 and k == 0:
            x = "".join(c + "a" for c in spaces) + "".join(spaces)
        else:
            x = "".join(r.choice(spaces + list("abc")) if r.random() < 0.5 else r.choice("ab ") for _ in range(r.randrange(0, 14)))
        reqs.append("wsnorm\t" + xt.enc_str(x))
        pend.append(("U9w", ("ws", utils.cleanup_whitespace(x).strip()), {"input": repr(x)}))
        st.units["U9w"] = st.units.get("U9w", 0) + 1
    resp = core.run_driver(reqs)
    for (unit, res, desc), mo in zip(pend, resp):
        if unit == "U9p":
            def bare(t):
                q = t.copy()
                for n in q.iter():
                    n.attrs = []
                return q
            want_a = xmlfmt.accept(res[1], drop_deleted_tail=True)
            want_ra = xmlfmt.reject(res[1])
            want_r = bare(want_ra)
            bad = None
            if not mo.startswith("ok ") or mo.count(" | ") != 2:
                bad = mo[:200]
            else:
                ma, mr, mra = mo[3:].split(" | ")
                bad = xt.doc_eq(xt.dec_tree(ma), want_a) or xt.doc_eq(xt.dec_tree(mr), want_r)
                if bad is None and [n.attrs for n in xt.dec_tree(ma).iter()] != [n.attrs for n in want_a.iter()]:
                    bad = "attribute order"
                if bad is None:
                    # Fin.rejFTA: the same projection with the diff:*-attr annotations decoded (Rej.rejAttrs), against
                    # the oracle's restore_attrs, node by node, attributes as a mapping
                    got = [(n.tag, sorted(n.attrs)) for n in xt.dec_tree(mra).iter()]
                    exp = [(n.tag, sorted(n.attrs)) for n in want_ra.iter()]
                    if got != exp:
                        bad = "decoded attributes: model %r oracle %r" % (got[:6], exp[:6])
            if bad:
                st.disagreements.append({"unit": "U9p", "real": xt.to_xml(res[1])[:900], "model": str(bad)[:300], **desc})
            continue
        if unit == "U9w":
            if mo.strip() != ("ok " + xt.enc_str(res[1])).strip():
                st.disagreements.append({"unit": "U9w", "real": repr(res[1]), "model": mo[:200], **desc})
            continue
        if unit == "U9e":
            desc = dict(desc, unit="U9e")
            if mo.startswith("err ") and not mo.startswith("err undo"):
                mo = "err 0 " + mo[4:]
        if res[0] == "ok":
            want = xt.canon_tree(res[1])
            if not mo.startswith("ok ") or xt.doc_eq(xt.dec_tree(mo[3:]), res[1], none_eq_empty=True) is not None or \
                    [n.attrs for n in xt.dec_tree(mo[3:]).iter()] != [n.attrs for n in res[1].iter()]:
                st.disagreements.append({"unit": unit, "real": xt.to_xml(res[1])[:900], "model": (xt.to_xml(xt.dec_tree(mo[3:])) if mo.startswith("ok ") else mo)[:900], **desc})
        else:
            exp = EXC_MAP.get(res[1])
            if mo.startswith("ok ") or (exp and not mo.endswith(exp)):
                st.disagreements.append({"unit": unit, "real": "exc " + res[1], "model": mo[:300], **desc})
    return st


# ---------------------------------------------------------------------------
# one XMLFormatter instance across document pairs that bind one prefix to different URIs (C08: diffing completes and
# the output is well-formed whatever the formatter has processed before)


def ns_reuse_cases(seed, lo, hi, extra):
    from xmldiff import main, formatting
    import real

    st = core.Stats()
    for idx in range(lo, hi):
        r = core.rng_for(seed, "nsreuse", idx)
        zp = r.choice(["n", "p", "meta", "x"])
        u1, u2 = r.sample(["urn:verif:parts:v1", "urn:verif:parts:v2", "urn:verif:other"], 2)

        def pair(uri, on_left):
            decl = ' xmlns:%s="%s"' % (zp, uri)
            w = r.choice(["two", "deux", "2"])
            if on_left:
                return ("<doc%s><%s:item>one</%s:item><%s:item>%s</%s:item></doc>" % ((decl,) + (zp,) * 3 + (w, zp)),
                        "<doc%s><%s:item>one</%s:item><%s:item>%s changed</%s:item><%s:item>three</%s:item></doc>" % ((decl,) + (zp,) * 3 + (w, zp, zp, zp)))
            return ("<doc><a>one</a></doc>", "<doc%s><a>one</a><%s:item>%s<%s:sub/></%s:item></doc>" % (decl, zp, w, zp, zp))

        p1, p2 = pair(u1, r.random() < 0.5), pair(u2, r.random() < 0.5)
        cfg = r.choice([{}, {"pretty_print": False}, {"use_replace": True}, {"normalize": formatting.WS_BOTH}])
        st.evaluations += 1
        st.units["ns-formatter-reused"] = st.units.get("ns-formatter-reused", 0) + 1
        desc = {"first_pair": list(p1), "second_pair": list(p2), "formatter": repr(cfg)}
        try:
            f = formatting.XMLFormatter(**cfg)
            main.diff_texts(p1[0], p1[1], formatter=f)
            out = main.diff_texts(p2[0], p2[1], formatter=f)
        except Exception as e:  # noqa
            st.failures.append({"prop": "C08", "sig": f"C08/raises/{real.exc_sig(e)}/formatter-reused-prefix-rebound", **desc})
            continue
        for sig, det in xmlfmt.check_c08(out):
            st.failures.append({"prop": "C08", "sig": f"{sig}/formatter-reused-prefix-rebound", "detail": det, "output": out[:600], **desc})
        st.nontriv((p1, p2, repr(cfg)))
    return st


# ---------------------------------------------------------------------------
# minimised past failures of the XML formatter (corpus/xmlfmt.json): run first, on every run


def corpus_cases(seed, lo, hi, extra):
    import json as _json
    import os

    from xmldiff import main, formatting
    import real

    st = core.Stats()
    path = os.path.join(os.path.dirname(os.path.dirname(os.path.dirname(os.path.abspath(__file__)))), "corpus", "xmlfmt.json")
    entries = _json.load(open(path, encoding="utf-8"))
    for e in entries[lo:hi]:
        cfg = dict(e["formatter"])
        for k in ("text_tags", "formatting_tags"):
            if k in cfg:
                cfg[k] = tuple(cfg[k])
        st.evaluations += 1
        st.units["xml-corpus"] = st.units.get("xml-corpus", 0) + 1
        desc = {"left": e["left"], "right": e["right"], "formatter": repr(cfg), "corpus": e.get("why")}
        try:
            out = main.diff_texts(e["left"], e["right"], formatter=formatting.XMLFormatter(**cfg))
        except Exception as ex:  # noqa
            st.failures.append({"prop": "C08", "sig": f"C08/raises/{real.exc_sig(ex)}/corpus", **desc})
            continue
        for sig, det in xmlfmt.check_c08(out):
            st.failures.append({"prop": "C08", "sig": f"{sig}/corpus", "detail": det, "output": out[:600], **desc})
    return st
