"""Shared machinery of the checks: paths, seeded PRNGs, the Lean driver, the Lean
audit (build, static grep, #print axioms), evidence files, known findings, parallel map.

Run with /venv/bin/python; xmldiff is imported from /repo's working tree as it is now.
"""
import hashlib
import json
import multiprocessing
import os
import random
import re
import subprocess
import sys
import time

VERIF = os.path.dirname(os.path.dirname(os.path.abspath(__file__)))
REPO = os.environ.get("VERIF_REPO", "/repo")
LEAN_DIR = os.path.join(VERIF, "lean")
DRIVER = os.path.join(LEAN_DIR, ".lake", "build", "bin", "xmldiff_model")
EVIDENCE_DIR = os.path.join(VERIF, "evidence")
REPLAY_DIR = os.path.join(VERIF, "replays")
FINDINGS_FILE = os.path.join(VERIF, "known_findings.json")
NPROC = int(os.environ.get("VERIF_JOBS", "0")) or min(16, os.cpu_count() or 1)

ALLOWED_AXIOMS = {"propext", "Classical.choice", "Quot.sound"}

TRUSTED_BASE = [
    "Lean 4.33.0 kernel (thorough tier: leanchecker re-check of the compiled property modules)",
    "axioms allowed in #print axioms: propext, Classical.choice, Quot.sound; no native_decide, bv_decide, sorry, admit or own axioms (audited on every run)",
    "hand-written Lean model of the Python code: fidelity is NOT proved, it is checked on every run by the correspondence units on generated inputs",
    "the harness under /verif/harness (generators, protocol codec, canonicalisation, property oracles) and the compiled model driver",
    "CPython 3.12, lxml 6.1.3 / libxml2 2.14.6, difflib, json, csv, argparse: modelled or observed, not verified",
]


class Infra(Exception):
    """Infrastructure failure: exit status 2, never reported as a violation."""


def import_repo():
    """Import xmldiff from /repo's current working tree and make sure that is what we got."""
    if REPO not in sys.path:
        sys.path.insert(0, REPO)
    import xmldiff  # noqa

    f = os.path.abspath(xmldiff.__file__)
    if not f.startswith(os.path.abspath(REPO) + os.sep):
        raise Infra(f"xmldiff imported from {f}, not from {REPO}")
    return xmldiff


def rng_for(seed, unit, idx):
    """One PRNG per case, derived from (seed, unit, index): a case replays exactly."""
    return random.Random(f"{seed}:{unit}:{idx}")


# ----------------------------------------------------------------------------
# Lean side


def _run(cmd, cwd=None, timeout=3600, env=None):
    p = subprocess.run(cmd, cwd=cwd, capture_output=True, text=True, timeout=timeout, env=env)
    return p.returncode, p.stdout, p.stderr


_built = False


def lean_build():
    """`lake build` (no-op when fresh).  Returns (ok, log)."""
    global _built
    rc, out, err = _run(["lake", "build", "XmlDiffModel", "xmldiff_model"], cwd=LEAN_DIR)
    _built = rc == 0
    return rc == 0, out + err


def driver_available():
    return os.path.exists(DRIVER)


def run_driver(lines):
    """Send request lines to the compiled model driver, one response line per request."""
    if not lines:
        return []
    data = "".join(l + "\n" for l in lines)
    p = subprocess.run([DRIVER], input=data, capture_output=True, text=True)
    if p.returncode != 0:
        raise Infra(f"model driver exited with {p.returncode}: {p.stderr[:500]}")
    out = p.stdout.split("\n")
    if out and out[-1] == "":
        out.pop()
    if len(out) != len(lines):
        raise Infra(f"model driver answered {len(out)} lines for {len(lines)} requests")
    return out


FORBIDDEN = re.compile(
    r"\bsorry\b|\badmit\b|^\s*axiom\s|native_decide|bv_decide|implemented_by|\bunsafe\s|maxHeartbeats\s+0\b|@\[extern"
)


def _strip_comments(src):
    # remove /- ... -/ (nested) and -- ... comments
    out = []
    i, depth, n = 0, 0, len(src)
    while i < n:
        if src.startswith("/-", i):
            depth += 1
            i += 2
        elif depth and src.startswith("-/", i):
            depth -= 1
            i += 2
        elif depth:
            if src[i] == "\n":
                out.append("\n")
            i += 1
        elif src.startswith("--", i):
            while i < n and src[i] != "\n":
                i += 1
        elif src[i] == '"':
            j = i + 1
            while j < n and src[j] != '"':
                j += 2 if src[j] == "\\" else 1
            out.append('""')
            i = j + 1
        else:
            out.append(src[i])
            i += 1
    return "".join(out)


def static_audit():
    """Grep every Lean source of the library for forbidden constructs outside comments."""
    hits = []
    for root, _dirs, files in os.walk(LEAN_DIR):
        if ".lake" in root:
            continue
        for fn in files:
            if not fn.endswith(".lean"):
                continue
            path = os.path.join(root, fn)
            src = _strip_comments(open(path, encoding="utf-8").read())
            for ln, line in enumerate(src.split("\n"), 1):
                if FORBIDDEN.search(line):
                    hits.append(f"{os.path.relpath(path, VERIF)}:{ln}: {line.strip()[:120]}")
    return hits


_axioms_cache = None


def print_axioms():
    """Run Audit.lean (a list of `#print axioms`) and parse {theorem: [axioms]}."""
    global _axioms_cache
    if _axioms_cache is not None:
        return _axioms_cache
    rc, out, err = _run(["lake", "env", "lean", "XmlDiffModel/Audit.lean"], cwd=LEAN_DIR)
    text = out + "\n" + err
    res = {}
    # "'Name' depends on axioms: [a, b]"  or  "'Name' does not depend on any axioms"
    for m in re.finditer(r"'([^']+)' depends on axioms:\s*\[([^\]]*)\]", text, re.S):
        res[m.group(1)] = [a.strip() for a in m.group(2).replace("\n", " ").split(",") if a.strip()]
    for m in re.finditer(r"'([^']+)' does not depend on any axioms", text):
        res[m.group(1)] = []
    _axioms_cache = (rc == 0, res, text)
    return _axioms_cache


def lean_audit(theorems, examples=()):
    """Proof obligations of one property.  Returns dict with obligations, discharged,
    per-theorem axioms and a list of problems (empty iff everything checks)."""
    problems = []
    ok, log = lean_build()
    if not ok:
        problems.append("lake build failed: " + log[-1500:])
    hits = static_audit()
    if hits:
        problems.append("forbidden constructs: " + "; ".join(hits[:10]))
    axioms = {}
    discharged = 0
    if ok:
        aok, table, text = print_axioms()
        if not aok:
            problems.append("Audit.lean failed: " + text[-1500:])
        for t in theorems:
            short = t
            if short not in table:
                problems.append(f"theorem {t} missing from axiom audit")
                continue
            axioms[t] = table[short]
            extra = set(table[short]) - ALLOWED_AXIOMS
            if extra:
                problems.append(f"theorem {t} depends on disallowed axioms {sorted(extra)}")
            elif not hits:
                discharged += 1
    return {
        "obligations": len(theorems),
        "discharged": discharged if ok else 0,
        "axioms": axioms,
        "problems": problems,
        "checker_cmd": "cd /verif/lean && lake build XmlDiffModel xmldiff_model && lake env lean XmlDiffModel/Audit.lean",
    }


def leanchecker(modules):
    """Thorough tier: independent re-check of compiled modules."""
    rc, out, err = _run(["lake", "env", "leanchecker"] + list(modules), cwd=LEAN_DIR, timeout=3600)
    return rc == 0, (out + err)[-2000:]


# ----------------------------------------------------------------------------
# Parallel map over case indices


def _worker(args):
    fn, seed, lo, hi, extra = args
    return fn(seed, lo, hi, extra)


def pmap_chunks(fn, seed, total, extra=None, chunk=None, jobs=None):
    """Call fn(seed, lo, hi, extra) on chunks of range(total) in worker processes and
    return the list of results in order.  fn must be a module-level function."""
    jobs = jobs or NPROC
    if total <= 0:
        return []
    if chunk is None:
        chunk = max(1, (total + jobs * 4 - 1) // (jobs * 4))
    tasks = [(fn, seed, lo, min(total, lo + chunk), extra) for lo in range(0, total, chunk)]
    if jobs == 1 or len(tasks) == 1:
        return [_worker(t) for t in tasks]
    ctx = multiprocessing.get_context("fork")
    with ctx.Pool(jobs) as pool:
        return pool.map(_worker, tasks)


# ----------------------------------------------------------------------------
# Results


class Stats:
    """Accumulates what one run covered."""

    def __init__(self):
        self.evaluations = 0
        self.nontrivial = set()  # digests of distinct non-trivial cases
        self.samples = []
        self.hist = {}
        self.disagreements = []  # model vs code: dicts
        self.failures = []  # property oracle failures on the real code: dicts with 'sig'
        self.units = {}

    def count(self, key, n=1):
        self.hist[key] = self.hist.get(key, 0) + n

    def nontriv(self, obj):
        self.nontrivial.add(hashlib.sha1(repr(obj).encode("utf-8", "surrogatepass")).hexdigest()[:16])

    def sample(self, obj, limit=4):
        if len(self.samples) < limit:
            self.samples.append(obj)

    def merge(self, other):
        self.evaluations += other.evaluations
        self.nontrivial |= other.nontrivial
        for s in other.samples:
            self.sample(s, 6)
        for k, v in other.hist.items():
            self.hist[k] = self.hist.get(k, 0) + v
        self.disagreements += other.disagreements
        self.failures += other.failures
        for k, v in other.units.items():
            self.units[k] = self.units.get(k, 0) + v
        return self


def merge_all(stats_list):
    s = Stats()
    for x in stats_list:
        s.merge(x)
    return s


def load_findings():
    if not os.path.exists(FINDINGS_FILE):
        return {"findings": [], "fixed": []}
    with open(FINDINGS_FILE) as f:
        return json.load(f)


def write_replay(prop_id, payload):
    os.makedirs(REPLAY_DIR, exist_ok=True)
    blob = json.dumps(payload, sort_keys=True, ensure_ascii=True, default=str)
    h = hashlib.sha1(blob.encode()).hexdigest()[:12]
    path = os.path.join(REPLAY_DIR, f"{prop_id}-{h}.json")
    with open(path, "w") as f:
        f.write(json.dumps(payload, indent=1, ensure_ascii=True, default=str))
    return path


def write_evidence(prop_id, tier, seed, coverage, assumptions, wall_s, violations):
    os.makedirs(EVIDENCE_DIR, exist_ok=True)
    ev = {
        "property_id": prop_id,
        "tier": tier,
        "seed": seed,
        "level": "proof",
        "coverage": coverage,
        "assumptions": assumptions,
        "wall_s": round(wall_s, 2),
        "violations": violations,
    }
    path = os.path.join(EVIDENCE_DIR, f"{prop_id}.json")
    tmp = path + ".tmp"
    with open(tmp, "w") as f:
        json.dump(ev, f, indent=1, ensure_ascii=True, default=str)
    os.replace(tmp, path)
    return path


def source_fingerprint(names):
    """sha1 of the AST dump of modelled functions, e.g. 'utils.longest_common_subsequence'
    or 'diff.Differ.match'.  Drift is recorded in the evidence (never a violation by itself)."""
    import ast

    out = {}
    for name in names:
        mod, _, rest = name.partition(".")
        path = os.path.join(REPO, "xmldiff", mod + ".py")
        try:
            tree = ast.parse(open(path, encoding="utf-8").read())
        except Exception as e:  # unparsable source: the import will fail loudly elsewhere
            out[name] = f"unparsable:{type(e).__name__}"
            continue
        node = tree
        found = True
        for part in rest.split("."):
            nxt = None
            for ch in ast.iter_child_nodes(node):
                if isinstance(ch, (ast.FunctionDef, ast.ClassDef)) and ch.name == part:
                    nxt = ch
                    break
            if nxt is None:
                found = False
                break
            node = nxt
        out[name] = hashlib.sha1(ast.dump(node).encode()).hexdigest()[:12] if found else "missing"
    return out
