"""./check <ID> [--tier quick|thorough] [--replay file]

Decides one property: Lean proof obligations + audit, correspondence of the model with
/repo's current working tree, property oracle on the real code, known findings.
Exit 0: held on everything explored; 1: a VIOLATION line was printed; 2: infrastructure.
"""
import argparse
import importlib
import json
import os
import sys
import time
import traceback

sys.path.insert(0, os.path.dirname(os.path.abspath(__file__)))
import core  # noqa: E402


def finding_matches(finding, failure):
    """A listed finding covers a failure iff the signatures agree (exact, or prefix when the
    finding's signature ends in '*')."""
    fs = finding["signature"]
    sig = failure["sig"]
    if fs.endswith("*"):
        return sig.startswith(fs[:-1])
    return sig == fs


def main(argv=None):
    ap = argparse.ArgumentParser()
    ap.add_argument("prop")
    ap.add_argument("--tier", default=os.environ.get("VERIF_TIER", "quick"), choices=["quick", "thorough"])
    ap.add_argument("--replay", default=None)
    args = ap.parse_args(argv)
    pid = args.prop.upper()
    seed = int(os.environ.get("VERIF_SEED", "0") or 0)
    t0 = time.time()
    try:
        core.import_repo_safe = True
        mod = importlib.import_module(f"props.{pid.lower()}")
    except ModuleNotFoundError:
        print(f"unknown property {pid}")
        return 2

    if args.replay:
        return mod.replay(args.replay)

    # 1. proof obligations
    audit = core.lean_audit(mod.THEOREMS)
    if not core.driver_available():
        print("INFRA: model driver not built (run MANIFEST.setup_cmd)")
        return 2
    checker_extra = None
    if args.tier == "thorough" and getattr(mod, "LEAN_MODULES", None):
        ok, log = core.leanchecker(mod.LEAN_MODULES)
        checker_extra = {"leanchecker_ok": ok, "modules": mod.LEAN_MODULES}
        if not ok:
            audit["problems"].append("leanchecker failed: " + log[-800:])
            audit["discharged"] = 0

    # 2+3. correspondence and property oracle on the real code
    try:
        import_error = None
        try:
            core.import_repo()
        except core.Infra:
            raise
        except Exception as e:  # the repo does not import: every unit is broken
            import_error = f"{type(e).__name__}: {e}"
        if import_error:
            stats = core.Stats()
            stats.disagreements.append({"unit": "import", "error": import_error})
        else:
            stats = mod.run(args.tier, seed, intensify=False)
            broken = bool(audit["problems"]) or bool(stats.disagreements)
            if broken and hasattr(mod, "search"):
                extra = mod.search(args.tier, seed)
                stats.failures += extra.failures
                stats.hist["intensified_search_evaluations"] = extra.evaluations
    except core.Infra as e:
        print(f"INFRA: {e}")
        return 2
    except Exception:
        traceback.print_exc()
        print("INFRA: harness crashed")
        return 2

    # 4. known findings
    kf = core.load_findings()
    listed = [f for f in kf.get("findings", []) if f["property"] == pid]
    hits = {f["id"]: 0 for f in listed}
    unlisted = []
    for fail in stats.failures:
        for f in listed:
            if finding_matches(f, fail):
                hits[f["id"]] += 1
                break
        else:
            unlisted.append(fail)
    # stored witnesses are replayed by the property module (they arrive as failures with
    # the same signature); a listed finding that no longer fails is simply not printed.
    for f in listed:
        if hits[f["id"]]:
            print(f"KNOWN-FINDING: property={pid} {f['id']}: {f['what']} ({hits[f['id']]} hit(s) this run)")

    violations = 0
    seen = set()
    for fail in unlisted:
        if fail["sig"] in seen:
            continue
        seen.add(fail["sig"])
        path = core.write_replay(pid, {"property": pid, "kind": "failing-input", **fail})
        print(f"VIOLATION property={pid} replay={path}")
        violations += 1
        if violations >= 5:
            break
    broken = bool(audit["problems"]) or bool(stats.disagreements)
    if broken and not unlisted:
        payload = {
            "property": pid,
            "kind": "obligation-broken",
            "proof_problems": audit["problems"],
            "correspondence_disagreements": stats.disagreements[:5],
            "note": "a proof obligation or a correspondence unit no longer checks; the search on the "
            "real code found no input on which the property itself fails",
        }
        path = core.write_replay(pid, payload)
        print(f"VIOLATION property={pid} replay={path} no-failing-input-found")
        violations += 1

    # evidence
    coverage = {
        "obligations": audit["obligations"],
        "discharged": audit["discharged"],
        "checker_cmd": audit["checker_cmd"],
        "trusted_base": core.TRUSTED_BASE + list(getattr(mod, "TRUSTED_EXTRA", [])),
        "theorems": audit["axioms"],
        "partial_theorems": getattr(mod, "PARTIAL", {}),
        "proof_problems": audit["problems"],
        "evaluations": stats.evaluations,
        "distinct_nontrivial": len(stats.nontrivial),
        "rule": mod.RULE,
        "samples": stats.samples[:6] or ["(none)"],
        "exhaustive": bool(stats.hist.get("exhaustive_spaces", 0)),
        "histogram": dict(sorted(stats.hist.items())),
        "correspondence_units": stats.units,
        "correspondence_disagreements": len(stats.disagreements),
        "oracle_failures_total": len(stats.failures),
        "known_finding_hits": hits,
        "source_fingerprints": core.source_fingerprint(getattr(mod, "SOURCES", [])),
    }
    if checker_extra:
        coverage["leanchecker"] = checker_extra
    core.write_evidence(pid, args.tier, seed, coverage, list(getattr(mod, "ASSUMPTIONS", [])), time.time() - t0, violations)
    print(
        f"{pid} tier={args.tier} seed={seed}: obligations {audit['discharged']}/{audit['obligations']}, "
        f"{stats.evaluations} evaluations ({len(stats.nontrivial)} distinct non-trivial), "
        f"{len(stats.disagreements)} model/code disagreements, {len(stats.failures)} oracle failures "
        f"({len(unlisted)} unlisted), {time.time() - t0:.1f}s"
    )
    return 1 if violations else 0


if __name__ == "__main__":
    sys.exit(main())
