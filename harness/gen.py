"""Seeded generators: documents, document pairs, diff options, scripts."""
from xt import PNode

XMLID = "{http://www.w3.org/XML/1998/namespace}id"

TAGS = ["a", "b", "c", "d"]
ATTRS = ["id", "k", "n", "ik", XMLID]  # "ik" sorts before "k" and contains it (annotation lists are ;-joined names)
VALUES = ["1", "2", "v", "x y", "", "1"]
TEXTS = [
    None,
    None,
    "x",
    "hello world",
    "hello there",
    "hello there world",
    "lorem ipsum dolor",
    " ",
    "\n  ",
    "y z",
    "a, b",
    'say "hi"',
    "back\\slash",
    "[br]",
    "line\nbreak",
    "tab\there",
    " sep",
    "café \U0001F600",
    "x ",
    " x",
]
SIMPLE_TEXTS = [None, None, None, "x", "hello world", "hello there", "y z"]
COMMENTS = ["c", "note", "hello world", "hello there", " ", "a, b", "two  blanks", "line\nbreak", "tab\there", " lead and trail  "]


def rand_text(r, simple=False):
    return r.choice(SIMPLE_TEXTS if simple else TEXTS)


def rand_attrs(r, p=0.35):
    attrs = []
    if r.random() < p:
        names = r.sample(ATTRS, r.randint(1, 3))
        for n in names:
            attrs.append((n, r.choice(VALUES)))
    return attrs


def rand_node(r, simple=False, comment_p=0.12, tags=None):
    if r.random() < comment_p:
        return PNode("c", "", [], r.choice(COMMENTS), rand_text(r, simple) if r.random() < 0.3 else None)
    return PNode(
        "e",
        r.choice(tags or TAGS),
        rand_attrs(r),
        rand_text(r, simple),
        rand_text(r, simple) if r.random() < 0.35 else None,
    )


def rand_tree(r, max_nodes=14, simple=False, tags=None, comment_p=0.12):
    """Random document: root element, random attachment (mix of deep and wide shapes)."""
    n = r.randint(1, max_nodes)
    root = PNode("e", r.choice(tags or TAGS), rand_attrs(r), rand_text(r, simple), None)
    elems = [root]
    style = r.random()
    for _ in range(n - 1):
        node = rand_node(r, simple, comment_p, tags)
        if style < 0.3:
            parent = elems[-1] if r.random() < 0.6 else r.choice(elems)
        elif style < 0.6:
            parent = elems[0] if r.random() < 0.6 else r.choice(elems)
        else:
            parent = r.choice(elems)
        parent.kids.insert(r.randint(0, len(parent.kids)), node)
        if node.kind == "e":
            elems.append(node)
    return root


def dup_heavy_tree(r, max_nodes=12):
    """Many identical siblings / repeated subtrees / duplicate unique-attribute values."""
    tag = r.choice(TAGS)
    unit = PNode("e", tag, r.choice([[], [("id", "1")], [(XMLID, "1")]]), r.choice([None, "x", "hello world"]), r.choice([None, None, "x"]))
    if r.random() < 0.5:
        unit.kids.append(PNode("e", r.choice(TAGS), [], r.choice([None, "x"]), None))
    root = PNode("e", r.choice(TAGS), [], r.choice([None, "x"]), None)
    k = r.randint(2, max(2, max_nodes // unit.size()))
    for _ in range(k):
        c = unit.copy()
        if r.random() < 0.2:
            c.text = r.choice(["x", "hello there", None])
        root.kids.append(c)
    if r.random() < 0.4:
        sub = root.copy()
        sub.tail = None
        root.kids.insert(r.randint(0, len(root.kids)), sub)
    return root


def _nodes_with_parent(t):
    out = []

    def go(n, parent):
        out.append((n, parent))
        for c in n.kids:
            go(c, n)

    go(t, None)
    return out


def mutate(r, t, steps=None, simple=False):
    """A mutation chain on a copy of t."""
    t = t.copy()
    steps = steps if steps is not None else r.randint(1, 4)
    for _ in range(steps):
        nodes = _nodes_with_parent(t)
        elems = [n for n, _ in nodes if n.kind == "e"]
        nonroot = [(n, p) for n, p in nodes if p is not None]
        op = r.choice(
            ["delete", "insert", "insert", "move", "move", "rename", "retext", "retail", "attr", "attr", "attr2", "dup", "swap", "cretext"]
        )
        if op == "delete" and nonroot:
            n, p = r.choice(nonroot)
            p.kids.remove(n)
        elif op == "insert":
            p = r.choice(elems)
            p.kids.insert(r.randint(0, len(p.kids)), rand_node(r, simple))
        elif op == "move" and nonroot:
            n, p = r.choice(nonroot)
            inside = set(id(x) for x in n.iter())
            targets = [e for e in elems if id(e) not in inside]
            if targets:
                p.kids.remove(n)
                q = r.choice(targets)
                q.kids.insert(r.randint(0, len(q.kids)), n)
        elif op == "rename":
            n = r.choice(elems)
            n.tag = r.choice(TAGS)
        elif op == "retext":
            n = r.choice(elems)
            n.text = rand_text(r, simple)
        elif op == "cretext":
            cs = [n for n, _ in nodes if n.kind == "c"]
            if cs:
                r.choice(cs).text = r.choice(COMMENTS)
        elif op == "retail" and nonroot:
            n, _ = r.choice(nonroot)
            n.tail = rand_text(r, simple)
        elif op == "attr":
            n = r.choice(elems)
            sub = r.choice(["add", "del", "upd", "ren"])
            keys = [k for k, _ in n.attrs]
            if sub == "add":
                k = r.choice(ATTRS)
                if k not in keys:
                    n.attrs.append((k, r.choice(VALUES)))
            elif sub == "del" and keys:
                k = r.choice(keys)
                n.attrs = [(a, b) for a, b in n.attrs if a != k]
            elif sub == "upd" and keys:
                k = r.choice(keys)
                n.attrs = [(a, r.choice(VALUES) if a == k else b) for a, b in n.attrs]
            elif sub == "ren" and keys:
                k = r.choice(keys)
                k2 = r.choice(ATTRS)
                if k2 not in keys:
                    n.attrs = [((k2 if a == k else a), b) for a, b in n.attrs]
        elif op == "attr2":
            # two changes of one kind on one node, the later-sorted name contained in the earlier one
            n = r.choice(elems)
            d = dict(n.attrs)
            if "ik" in d and "k" in d:
                if r.random() < 0.5:
                    n.attrs = [(a, b) for a, b in n.attrs if a not in ("ik", "k")]
                else:
                    v = r.choice([x for x in VALUES if x not in (d["ik"], d["k"])] or ["w"])
                    n.attrs = [(a, v if a in ("ik", "k") else b) for a, b in n.attrs]
            elif "ik" not in d and "k" not in d:
                n.attrs += [("ik", r.choice(VALUES)), ("k", r.choice(VALUES))]
            elif "id" in d and "ik" in d and "n" not in d and "k" not in d:
                n.attrs = [({"id": "n", "ik": "k"}.get(a, a), b) for a, b in n.attrs]
        elif op == "dup" and nonroot:
            n, p = r.choice(nonroot)
            if n.size() <= 4:
                p.kids.insert(p.kids.index(n) + r.randint(0, 1), n.copy())
        elif op == "swap":
            ps = [e for e in elems if len(e.kids) >= 2]
            if ps:
                p = r.choice(ps)
                i = r.randrange(len(p.kids) - 1)
                p.kids[i], p.kids[i + 1] = p.kids[i + 1], p.kids[i]
    return t


def rand_pair(r, max_nodes=14, simple=False):
    mode = r.random()
    if mode < 0.12:
        L = dup_heavy_tree(r, max_nodes)
        R = mutate(r, L, simple=simple) if r.random() < 0.8 else dup_heavy_tree(r, max_nodes)
    elif mode < 0.65:
        L = rand_tree(r, max_nodes, simple)
        R = mutate(r, L, simple=simple)
    else:
        L = rand_tree(r, max_nodes, simple)
        R = rand_tree(r, max_nodes, simple)
    if R.kind != "e":
        R.kind = "e"
    R.tail = None
    L.tail = None
    return L.number(0), R.number(1000)


def wide_pair(r, max_kids=30):
    """One element with many matched children in a different order (long alignments)."""
    k = r.randint(6, max_kids)
    words = ["alpha", "bravo", "charlie", "delta", "echo", "foxtrot", "golf", "hotel", "india", "juliet", "kilo", "lima"]
    root = PNode("e", "list", [], None, None)
    for i in range(k):
        t = f"{words[i % len(words)]} {words[(i * 7 + 3) % len(words)]} item number {i}"
        c = PNode("e", r.choice(["item", "item", "row"]), [("n", str(i))] if r.random() < 0.3 else [], t, None)
        if r.random() < 0.15:
            c.kids.append(PNode("e", "sub", [], "s%d" % i, None))
        root.kids.append(c)
    L = root
    R = root.copy()
    mode = r.random()
    if mode < 0.3:
        R.kids.reverse()
    elif mode < 0.6:
        r.shuffle(R.kids)
    elif mode < 0.8:
        j = r.randint(1, k - 1)
        R.kids = R.kids[j:] + R.kids[:j]
    else:
        for _ in range(r.randint(1, 6)):
            a, b = r.randrange(k), r.randrange(k)
            R.kids[a], R.kids[b] = R.kids[b], R.kids[a]
    if r.random() < 0.3:
        R = mutate(r, R, steps=r.randint(1, 2))
    return L.number(0), R.number(1000)


NS = {"p": "urn:verif:p", "q": "urn:verif:q", "x": "http://verif.example/x"}
# prefixes that end like the reserved ns<digits> form without being of that form are ordinary prefixes
ALIASES = {"p": ["p", "pt", "parts", "tns1"], "q": ["q", "qq", "dns2"], "x": ["x", "xh", "axns10"]}


def ns_pair(r, max_nodes=12, second_alias=False):
    """Namespaced documents of the C01 domain: every prefix declared once on the root, one
    prefix per URI (with `second_alias`: sometimes a second prefix for one URI on the right root,
    declared before or after the first), no default namespace, no reserved ns<digits> prefixes.
    The right root may declare prefixes the left root lacks (InsertNamespace) and vice versa."""
    lp = r.sample(sorted(NS), r.randint(1, 3))
    rp = r.sample(sorted(NS), r.randint(1, 3))
    if r.random() < 0.5:
        rp = sorted(set(lp) | set(rp))

    def qualify(t, prefixes):
        for n in t.iter():
            if n.kind == "e" and r.random() < 0.6:
                n.tag = "{%s}%s" % (NS[r.choice(prefixes)], n.tag.split("}")[-1])
            if n.kind == "e" and n.attrs and r.random() < 0.3:
                k, v = n.attrs[0]
                if not k.startswith("{"):
                    n.attrs[0] = ("{%s}%s" % (NS[r.choice(prefixes)], k), v)
        return t

    L = qualify(rand_tree(r, max_nodes), lp)
    if r.random() < 0.6:
        R = mutate(r, L)
        # re-qualify some nodes with prefixes of the right document only
        for n in R.iter():
            if n.kind == "e" and n.tag.startswith("{"):
                uri = n.tag[1:].split("}")[0]
                if uri not in [NS[p] for p in rp]:
                    n.tag = "{%s}%s" % (NS[r.choice(rp)], n.tag.split("}")[1])
            n.attrs = [(k, v) for k, v in n.attrs if not k.startswith("{urn") and not k.startswith("{http://verif")]
        if r.random() < 0.5:
            qualify(R, rp)
    else:
        R = qualify(rand_tree(r, max_nodes), rp)
    for n in L.iter():
        n.attrs = [(k, v) for k, v in n.attrs if not (k.startswith("{") and "verif" in k and k[1:].split("}")[0] not in [NS[p] for p in lp])]
    # the prefix a URI is bound to varies from case to case (never inside one case): lxml's prefix registry is process-global,
    # so consecutive diffs in one worker process re-register the same URI under other prefixes
    alias = {p: r.choice(ALIASES[p]) for p in NS}
    alias_r = dict(alias)
    if r.random() < 0.25:
        # the two documents bind the same URI to different prefixes
        alias_r = {p: r.choice(ALIASES[p]) for p in NS}
    L.nsmap = {alias[p]: NS[p] for p in lp}
    R.nsmap = {alias_r[p]: NS[p] for p in rp}
    if second_alias and r.random() < 0.4:
        p2 = r.choice(rp)
        spare = [a for a in ALIASES[p2] if a != alias_r[p2] and a not in L.nsmap and a not in R.nsmap]
        if spare:
            extra = r.choice(spare)
            items = list(R.nsmap.items())
            i = [k for k, _ in items].index(alias_r[p2])
            items.insert(i if r.random() < 0.5 else i + 1, (extra, NS[p2]))
            R.nsmap = dict(items)
    L.tail = None
    R.tail = None
    return L.number(0), R.number(1000)


F_VALUES = [0.1, 0.3, 0.5, 0.5, 0.5, 0.7071067811865476, 0.72, 0.9, 1.0]
UNIQUE_CHOICES = [None, None, [], ["id"], [("a", "id")], ["id", "k"], [("b", "k"), "id"], [XMLID, "n"],
                  [("a", "id"), ("a", "k")], ["n", ("b", "id")], [("c", "id"), ("c", "n"), ("a", "k")], ["k", ("a", "id"), ("a", "n")]]


def rand_opts(r, with_ignored=False):
    o = {}
    f = r.choice(F_VALUES + [None])
    if r.random() < 0.15:
        f = round(r.uniform(0.05, 1.0), 3)
    if f is not None:
        o["F"] = f
    o["ratio_mode"] = r.choice(["fast", "fast", "accurate", "faster"])
    m = r.random()
    if m < 0.25:
        o["fast_match"] = True
    elif m < 0.5:
        o["best_match"] = True
    ua = r.choice(UNIQUE_CHOICES)
    if ua is not None:
        o["uniqueattrs"] = list(ua)
    if with_ignored and r.random() < 0.8:
        o["ignored_attrs"] = r.sample(ATTRS, r.randint(1, 2))
    return o
