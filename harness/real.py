"""Calls into the real xmldiff (from /repo's working tree) for the correspondence units."""
import traceback

from lxml import etree

import xt


def exc_sig(e):
    """Exception class + innermost xmldiff frame (function name), for signatures."""
    tb = traceback.extract_tb(e.__traceback__)
    site = "?"
    for fr in tb:
        if "/xmldiff/" in fr.filename:
            site = fr.name
    return f"{type(e).__name__}@{site}"


class RealDiff:
    """One diff of (L, R) with the real Differ, instrumented from outside only:
    node identity table (proxies kept alive), similarity oracle table, match list,
    script, final working copy."""

    def __init__(self, Lp, Rp, opts, embed=False):
        from xmldiff import diff

        self.Lp, self.Rp, self.opts = Lp, Rp, opts
        self.L = xt.to_lxml(Lp)
        self.R = xt.to_lxml(Rp)
        self.keep = []
        if embed:
            # the right tree is an element inside a larger document: a copy of the left document and a comment follow it
            holder = etree.Element("holder")
            holder.append(self.R)
            holder.append(xt.to_lxml(Lp.copy()))
            holder.append(etree.Comment(" after "))
            self.keep.append(holder)
        self.differ = diff.Differ(**opts)
        self.differ.set_trees(self.L, self.R)
        # keep every proxy alive: id() must stay a stable identity
        self.lnodes = list(self.differ.left.iter())
        self.rnodes = list(self.R.iter())
        self.lid = {id(n): p.id for n, p in zip(self.lnodes, Lp.iter())}
        self.rid = {id(n): p.id for n, p in zip(self.rnodes, Rp.iter())}
        assert len(self.lnodes) == Lp.size() and len(self.rnodes) == Rp.size()

    def sim_table(self):
        """sim l r c for every comparable pair and every possible matched-children count,
        computed by the real node_ratio (unique attributes off, child_ratio forced)."""
        from xmldiff import diff

        o = dict(self.opts)
        o["uniqueattrs"] = []
        d0 = diff.Differ(**o)
        d0._l2rmap = {}
        forced = [None]
        d0.child_ratio = lambda left, right: forced[0]
        out = []
        for ln in self.lnodes:
            lc = ln.tag is etree.Comment
            nl = len(ln)
            for rn in self.rnodes:
                rc = rn.tag is etree.Comment
                if lc != rc:
                    continue
                li, ri = self.lid[id(ln)], self.rid[id(rn)]
                if lc:
                    forced[0] = None
                    out.append(f"{li}:{ri}:0:{xt.fbits(d0.node_ratio(ln, rn))}")
                    continue
                nr = len(rn)
                if nl == 0 and nr == 0:
                    forced[0] = None
                    out.append(f"{li}:{ri}:0:{xt.fbits(d0.node_ratio(ln, rn))}")
                else:
                    tot = max(nl, nr)
                    for c in range(0, min(nl, nr) + 1):
                        forced[0] = c / tot
                        out.append(f"{li}:{ri}:{c}:{xt.fbits(d0.node_ratio(ln, rn))}")
        return " ".join(out)

    def eq_assumptions(self, sim):
        """For a pair of equal documents: do the real node_ratio values meet the hypotheses of
        C03_equal_documents_empty_script?  SimOK is read off the table `sim` handed to the model;
        FastOK (fast_match only) is evaluated with the real node_ratio on empty maps, which is the
        relation the real LCS helper is given.  Returns a list of problems (empty = hypotheses hold)."""
        from xmldiff import diff, utils

        one = xt.fbits(1.0)
        tab = {}
        for e in sim.split():
            a, b, c, v = e.split(":")
            tab[(int(a), int(b), int(c))] = int(v)
        out = []
        for ln, rn in list(zip(self.lnodes, self.rnodes))[1:]:
            full = 0 if ln.tag is etree.Comment else len(ln)
            key = (self.lid[id(ln)], self.rid[id(rn)], full)
            if tab.get(key) != one:
                out.append(f"SimOK: sim{key} = {tab.get(key)} is not 1.0")
                break
        if self.opts.get("fast_match"):
            d1 = diff.Differ(**self.opts)
            d1.set_trees(self.L, self.R)
            d1._l2rmap, d1._r2lmap, d1._text_cache = {}, {}, {}
            # same objects as the differ under test uses on the left? no: its own deep copy; positions agree
            ls = list(utils.post_order_traverse(d1.left))[:-1]
            rs = list(utils.post_order_traverse(d1.right))[:-1]
            F = d1.F
            rel = [[d1.node_ratio(a, b) >= F for b in rs] for a in ls]
            n = len(ls)
            for i in range(n):
                for j in range(n):
                    if rel[i][j] and not (rel[i][i] and rel[j][j]):
                        out.append(f"FastOK: node_ratio >= F at ({i},{j}) but not at ({i},{i}) / ({j},{j})")
                        return out
        return out

    def match(self):
        m = self.differ.match()
        self.keep.append(m)
        # a node that is in neither tree gets the id -1
        return [(self.lid.get(id(a), -1), self.rid.get(id(b), -1)) for a, b, _ in m]

    def script(self):
        """list(differ.diff()) after match(); returns the action list."""
        acts = []
        fresh = 2000
        gen = self.differ.diff()
        for a in gen:
            acts.append(a)
        return acts

    def final_left(self):
        return xt.from_lxml(self.differ.left)

    def reuse(self):
        """The same Differ asked again about the same tree objects, after its script was consumed:
        diff(L, R), then match(L, R).  Returns (the left copy the second matching is over, the match
        list as pre-order positions, the second script)."""
        d = self.differ
        # diff(L, R) straight after the consumed diff(): nothing else has reset the instance in between
        s2 = list(d.diff(self.L, self.R))
        m2 = d.match(self.L, self.R)
        self.keep.append(m2)
        left2 = xt.from_lxml(d.left)
        lnodes2 = list(d.left.iter())
        self.keep.append(lnodes2)
        lpos = {id(n): i for i, n in enumerate(lnodes2)}
        rpos = {id(n): i for i, n in enumerate(self.rnodes)}
        pairs = [(lpos.get(id(a)), rpos.get(id(b))) for a, b, _ in m2]
        return left2, pairs, s2

    def reuse_other(self, R3p):
        """The same Differ, the same left tree object, another right document: diff(L, R3)."""
        R3 = xt.to_lxml(R3p)
        self.keep.append(R3)
        return list(self.differ.diff(self.L, R3))


def real_patch(actions, Lp):
    """main.patch_tree on a tree built from Lp. Returns ('ok', PNode) or ('err', class, site)."""
    from xmldiff import main

    L = xt.to_lxml(Lp)
    before = xt.canon_tree(xt.from_lxml(L))
    try:
        out = main.patch_tree(actions, L)
    except Exception as e:  # noqa
        return ("err", type(e).__name__, exc_sig(e))
    after = xt.canon_tree(xt.from_lxml(L))
    return ("ok", xt.from_lxml(out), before == after)


ERRMAP = {
    "IndexError": "notFound",
    "AssertionError": "assertFail",
    "KeyError": "keyError",
    "AttributeError": "rootOp",
    "XPathEvalError": "notFound",
}
